//! genner <input.json> <out_dir>
//!
//! input: [{ "id", "definitions": {name: schema}, "root": name,
//!           "settings": {"builder": bool, "derives": [..], "map_type": str?,
//!                        "patch": {name: {"rename": str?, "derives": [..]}},
//!                        "replace": {name: type_path}} }]
//! output: <out_dir>/<id>.rs (the module body typify generates) and
//!         <out_dir>/index.json: per case {ok, error?, root_type, structs: {Type: [{field, json, ty}]}, builders: [..]}
#[path = "../../corpus/origin_types.rs"]
mod origin_types;

use std::collections::BTreeMap;
use std::panic::{catch_unwind, AssertUnwindSafe};

use quote::ToTokens;
use serde::Deserialize;
use serde_json::json;
use typify_impl::{TypeSpace, TypeSpacePatch, TypeSpaceSettings};

#[derive(Deserialize)]
struct Case {
    id: String,
    definitions: BTreeMap<String, serde_json::Value>,
    root: String,
    #[serde(default)]
    settings: Settings,
    /// "ref": all definitions through add_ref_types, root located by $ref;
    /// "add_type": the root schema is passed to add_type itself (the other
    /// definitions through add_ref_types)
    #[serde(default)]
    ingest: Option<String>,
}

#[derive(Deserialize, Default)]
struct Settings {
    #[serde(default)]
    builder: bool,
    #[serde(default)]
    derives: Vec<String>,
    map_type: Option<String>,
    #[serde(default)]
    patch: BTreeMap<String, Patch>,
    #[serde(default)]
    replace: BTreeMap<String, String>,
}

#[derive(Deserialize, Default)]
struct Patch {
    rename: Option<String>,
    #[serde(default)]
    derives: Vec<String>,
}

fn run_case(case: &Case) -> Result<(String, serde_json::Value), String> {
    let mut settings = TypeSpaceSettings::default();
    settings.with_struct_builder(case.settings.builder);
    for d in &case.settings.derives {
        settings.with_derive(d.clone());
    }
    if let Some(m) = &case.settings.map_type {
        settings.with_map_type(m.clone());
    }
    for (name, p) in &case.settings.patch {
        let mut patch = TypeSpacePatch::default();
        if let Some(r) = &p.rename {
            patch.with_rename(r);
        }
        for d in &p.derives {
            patch.with_derive(d);
        }
        settings.with_patch(name, &patch);
    }
    for (name, ty) in &case.settings.replace {
        settings.with_replacement(name, ty, std::iter::empty());
    }
    let mut ts = TypeSpace::new(&settings);
    let defs: Vec<(String, schemars::schema::Schema)> = case
        .definitions
        .iter()
        .map(|(k, v)| Ok((k.clone(), serde_json::from_value(v.clone()).map_err(|e| format!("schema {k}: {e}"))?)))
        .collect::<Result<_, String>>()?;
    let direct = case.ingest.as_deref() == Some("add_type");
    let (root_defs, defs): (Vec<_>, Vec<_>) = defs.into_iter().partition(|(k, _)| direct && *k == case.root);
    ts.add_ref_types(defs).map_err(|e| format!("add_ref_types: {e}"))?;
    let id = if direct {
        let (_, schema) = root_defs.into_iter().next().ok_or("root definition missing")?;
        ts.add_type(&schema).map_err(|e| format!("add_type: {e}"))?
    } else {
        let root_ref: schemars::schema::Schema =
            serde_json::from_value(json!({"$ref": format!("#/definitions/{}", case.root)})).unwrap();
        ts.add_type(&root_ref).map_err(|e| format!("add_type: {e}"))?
    };
    let root_type = ts.get_type(&id).map_err(|e| format!("get_type: {e}"))?.name();

    let tokens = ts.to_stream();
    let file = syn::parse2::<syn::File>(tokens).map_err(|e| format!("output does not parse as a file: {e}"))?;
    let text = prettyplease::unparse(&file);

    // field <-> JSON name mapping, read from the generated code itself
    let mut structs = serde_json::Map::new();
    let mut builders = Vec::new();
    for item in &file.items {
        match item {
            syn::Item::Struct(s) => {
                if let syn::Fields::Named(named) = &s.fields {
                    let mut fields = Vec::new();
                    for f in &named.named {
                        let ident = f.ident.as_ref().unwrap().to_string();
                        let plain = ident.trim_start_matches("r#").to_string();
                        let mut jname = plain.clone();
                        let mut flatten = false;
                        for a in &f.attrs {
                            if a.path().is_ident("serde") {
                                let _ = a.parse_nested_meta(|m| {
                                    if m.path.is_ident("rename") {
                                        let v: syn::LitStr = m.value()?.parse()?;
                                        jname = v.value();
                                    } else if m.path.is_ident("flatten") {
                                        flatten = true;
                                    } else if m.input.peek(syn::Token![=]) {
                                        let _: syn::Expr = m.value()?.parse()?;
                                    }
                                    Ok(())
                                });
                            }
                        }
                        fields.push(json!({"field": ident, "json": jname, "flatten": flatten,
                                           "ty": f.ty.to_token_stream().to_string()}));
                    }
                    structs.insert(s.ident.to_string(), serde_json::Value::Array(fields));
                }
            }
            syn::Item::Mod(m) if m.ident == "builder" => {
                if let Some((_, items)) = &m.content {
                    for it in items {
                        if let syn::Item::Struct(s) = it {
                            builders.push(s.ident.to_string());
                        }
                    }
                }
            }
            _ => {}
        }
    }
    Ok((text, json!({"ok": true, "root_type": root_type, "structs": structs, "builders": builders})))
}

fn main() {
    let args: Vec<String> = std::env::args().collect();
    let cases: Vec<Case> = serde_json::from_str(&std::fs::read_to_string(&args[1]).expect("input")).expect("input json");
    let out = std::path::Path::new(&args[2]);
    std::fs::create_dir_all(out).unwrap();
    let mut index = serde_json::Map::new();
    // typify panics are findings about the case, not about genner
    std::panic::set_hook(Box::new(|_| {}));
    for case in &cases {
        let r = catch_unwind(AssertUnwindSafe(|| run_case(case)));
        let entry = match r {
            Ok(Ok((text, meta))) => {
                std::fs::write(out.join(format!("{}.rs", case.id)), text).unwrap();
                meta
            }
            Ok(Err(e)) => json!({"ok": false, "error": e}),
            Err(p) => {
                let msg = p.downcast_ref::<String>().cloned().or_else(|| p.downcast_ref::<&str>().map(|s| s.to_string())).unwrap_or_default();
                json!({"ok": false, "error": format!("typify panicked: {msg}")})
            }
        };
        index.insert(case.id.clone(), entry);
    }
    // C04: origin types -> schemars schema -> typify, through both ingestion routes
    let mut origin = serde_json::Map::new();
    for (name, root) in origin_types::schemas() {
        let schema_json = serde_json::to_value(&root).unwrap();
        let mut entry = serde_json::Map::new();
        entry.insert("schema".into(), schema_json);
        for route in ["root", "defs"] {
            let r = catch_unwind(AssertUnwindSafe(|| run_origin(name, &root, route)));
            let id = format!("o_{}_{}", name.to_lowercase(), route);
            let v = match r {
                Ok(Ok((text, ty))) => {
                    std::fs::write(out.join(format!("{id}.rs")), text).unwrap();
                    json!({"ok": true, "module": id, "type": ty})
                }
                Ok(Err(e)) => json!({"ok": false, "error": e}),
                Err(_) => json!({"ok": false, "error": "typify panicked"}),
            };
            entry.insert(route.into(), v);
        }
        origin.insert(name.to_string(), serde_json::Value::Object(entry));
    }
    index.insert("__origin".into(), serde_json::Value::Object(origin));
    std::fs::write(out.join("index.json"), serde_json::to_string_pretty(&index).unwrap()).unwrap();
}

/// One origin type through one ingestion route; returns (module text, type name).
fn run_origin(name: &str, root: &schemars::schema::RootSchema, route: &str) -> Result<(String, String), String> {
    let mut ts = TypeSpace::new(&TypeSpaceSettings::default());
    let type_name = if route == "root" {
        let id = ts.add_root_schema(root.clone()).map_err(|e| format!("add_root_schema: {e}"))?.ok_or("root schema without a type")?;
        ts.get_type(&id).map_err(|e| e.to_string())?.name()
    } else {
        // the definitions map, with the root type itself as one more definition
        let mut defs: Vec<(String, schemars::schema::Schema)> = root.definitions.iter().map(|(k, v)| (k.clone(), v.clone())).collect();
        defs.push((name.to_string(), schemars::schema::Schema::Object(root.schema.clone())));
        ts.add_ref_types(defs).map_err(|e| format!("add_ref_types: {e}"))?;
        let r: schemars::schema::Schema = serde_json::from_value(json!({"$ref": format!("#/definitions/{name}")})).unwrap();
        let id = ts.add_type(&r).map_err(|e| format!("add_type: {e}"))?;
        ts.get_type(&id).map_err(|e| e.to_string())?.name()
    };
    let file = syn::parse2::<syn::File>(ts.to_stream()).map_err(|e| format!("output does not parse as a file: {e}"))?;
    Ok((prettyplease::unparse(&file), type_name))
}
