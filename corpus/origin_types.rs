// Origin types for C04 (Rust -> schemars schema -> typify type). Included by
// /verif/genner with feature "schema" (derives schemars::JsonSchema and is the
// source of the schemas) and by /verif/kani/e2 without it (serde derives only).
// The program dimension of C04 is exactly this list. Struct fields are declared
// in the order typify emits them (sorted by JSON name) so that the documents
// written by both sides can be compared slot by slot; JSON member order carries
// no meaning. `skip_serializing_if` on the origin side is outside: it makes
// member presence in the origin's output symbolic (measured: no verdict). Nested
// origin structs and `Vec` members are outside for the same kind of reason: the
// generated type has to read the *origin's output*, whose nested counts CBMC no
// longer knows as constants (measured: no verdict in 10 min).
use serde::{Deserialize, Serialize};

macro_rules! origin {
    ($($item:item)*) => { $(
        #[derive(Serialize, Deserialize, Clone, Debug, PartialEq)]
        #[cfg_attr(feature = "schema", derive(schemars::JsonSchema))]
        $item
    )* };
}

origin! {
    pub struct OPoint { pub ok: bool, pub x: u8, pub y: i32 }

    pub struct OOpt { pub a: Option<u16>, pub b: Option<bool>, pub name: String }

    #[serde(rename_all = "camelCase")]
    pub struct ORenamed {
        #[serde(rename = "display-name")]
        pub display_name: String,
        pub is_active: bool,
        pub user_id: u32,
    }

    pub struct ODefault {
        #[serde(default)]
        pub count: u32,
        #[serde(default)]
        pub flag: bool,
        pub label: String,
    }

    #[serde(deny_unknown_fields)]
    pub struct ODeny { pub a: u64, pub b: i64 }

    pub struct OTupleStruct(pub u8, pub bool);

    pub struct ONewtype(pub i16);

    #[serde(rename_all = "kebab-case")]
    pub enum OEnum { FirstOne, SecondOne, Third }

    pub struct OBox { pub b: Box<i32>, pub n: std::num::NonZeroU16 }

    pub struct OSigned { pub d: std::num::NonZeroI16, pub m: Option<std::num::NonZeroI32>, pub s: i8 }
}

/// (name, schema) of every origin type; only with feature "schema".
#[cfg(feature = "schema")]
pub fn schemas() -> Vec<(&'static str, schemars::schema::RootSchema)> {
    macro_rules! all { ($($t:ident),*) => { vec![$( (stringify!($t), schemars::schema_for!($t)) ),*] }; }
    all!(OPoint, OOpt, ORenamed, ODefault, ODeny, OTupleStruct, ONewtype, OEnum, OBox, OSigned)
}
