//! C10 / C06: integer type selection (`TypeSpace::convert_integer`,
//! typify-impl/src/convert.rs) over all finite f64 bounds, an integer default
//! and a probe integer, one harness per (concrete) format string.

use crate::src::Src;
use schemars::schema::{Metadata, NumberValidation};
use typify_impl::verif_hooks as hooks;

/// Representable range of each type `convert_integer` may name.
fn type_range(name: &str) -> Option<(i128, i128)> {
    const NZ: &[u8] = b"::std::num::NonZeroU";
    let b = name.as_bytes();
    let (signed, bits, nz) = if b.len() >= 2 && (b[0] == b'i' || b[0] == b'u') {
        (b[0] == b'i', &b[1..], false)
    } else if b.len() > NZ.len() {
        let mut i = 0;
        while i < NZ.len() {
            if b[i] != NZ[i] {
                return None;
            }
            i += 1;
        }
        (false, &b[NZ.len()..], true)
    } else {
        return None;
    };
    let bits: u32 = match bits {
        [b'8'] => 8,
        [b'1', b'6'] => 16,
        [b'3', b'2'] => 32,
        [b'6', b'4'] => 64,
        _ => return None,
    };
    Some(if signed {
        (-(1i128 << (bits - 1)), (1i128 << (bits - 1)) - 1)
    } else if nz {
        (1, (1i128 << bits) - 1)
    } else {
        (0, (1i128 << bits) - 1)
    })
}

/// The documented (README / schemars) meaning of the recognised integer
/// formats: (type, lo, hi).
pub fn format_row(fmt: &str) -> Option<(&'static str, i128, i128)> {
    Some(match fmt {
        "int8" => ("i8", i8::MIN as i128, i8::MAX as i128),
        "uint8" => ("u8", 0, u8::MAX as i128),
        "int16" => ("i16", i16::MIN as i128, i16::MAX as i128),
        "uint16" => ("u16", 0, u16::MAX as i128),
        "int" | "int32" => ("i32", i32::MIN as i128, i32::MAX as i128),
        "uint" | "uint32" => ("u32", 0, u32::MAX as i128),
        "int64" => ("i64", i64::MIN as i128, i64::MAX as i128),
        "uint64" => ("u64", 0, u64::MAX as i128),
        _ => return None,
    })
}

fn name_is(name: &str, want: &str) -> bool {
    let (a, b) = (name.as_bytes(), want.as_bytes());
    if a.len() != b.len() {
        return false;
    }
    let mut i = 0;
    while i < a.len() {
        if a[i] != b[i] {
            return false;
        }
        i += 1;
    }
    true
}

/// An integer of the JSON-integer domain serde_json can carry: i64 ∪ u64.
fn any_integer<S: Src>(s: &mut S, allow_u64: bool) -> (i128, f64, serde_json::Number) {
    if !allow_u64 || s.bool() {
        let n = s.i64();
        (n as i128, n as f64, serde_json::Number::from(n))
    } else {
        let n = s.u64();
        (n as i128, n as f64, serde_json::Number::from(n))
    }
}

#[derive(Clone, Copy)]
pub struct Cfg {
    pub excl: bool,
    pub multiple: bool,
    pub default: bool,
    pub default_u64: bool,
    pub probe: bool,
    pub probe_u64: bool,
    /// presence of minimum/maximum/exclusiveMinimum/exclusiveMaximum: None = symbolic, Some(mask) = concrete (bit0..3)
    pub mask: Option<u8>,
}
pub const FULL: Cfg = Cfg { excl: true, multiple: true, default: true, default_u64: true, probe: true, probe_u64: true, mask: None };

pub fn body<S: Src>(s: &mut S, fmt: Option<&'static str>) {
    body_cfg(s, fmt, FULL)
}

pub fn body_cfg<S: Src>(s: &mut S, fmt: Option<&'static str>, cfg: Cfg) {
    let ts = hooks::empty_type_space();

    let bound = |s: &mut S, bit: u8| match cfg.mask {
        None => s.opt_f64_finite(),
        Some(m) if m & (1 << bit) != 0 => Some(s.f64_finite()),
        Some(_) => None,
    };
    let minimum = bound(s, 0);
    let maximum = bound(s, 1);
    let exclusive_minimum = if cfg.excl { bound(s, 2) } else { None };
    let exclusive_maximum = if cfg.excl { bound(s, 3) } else { None };
    let multiple_of = if cfg.multiple && s.bool() { Some(2.0) } else { None };
    let validation = Some(Box::new(NumberValidation {
        multiple_of,
        maximum,
        exclusive_maximum,
        minimum,
        exclusive_minimum,
    }));

    // default: absent, or any integer of i64 ∪ u64
    let default = if cfg.default && s.bool() { Some(any_integer(s, cfg.default_u64)) } else { None };
    let metadata: Option<Box<Metadata>> = Some(Box::new(Metadata {
        default: default
            .as_ref()
            .map(|(_, _, num)| serde_json::Value::Number(num.clone())),
        ..Default::default()
    }));
    let format: Option<String> = fmt.map(str::to_string);

    // probe integer
    let (n, x, _) = any_integer(s, cfg.probe_u64);

    #[cfg(not(kani))]
    {
        s.note("format", &fmt);
        s.note("minimum", &minimum);
        s.note("maximum", &maximum);
        s.note("exclusiveMinimum", &exclusive_minimum);
        s.note("exclusiveMaximum", &exclusive_maximum);
        s.note("multipleOf", &multiple_of);
        s.note("default", &default.as_ref().map(|d| d.0));
        s.note("probe", &n);
    }

    // ---- the real code
    let res = hooks::convert_integer(&ts, &metadata, &validation, &format);

    #[cfg(not(kani))]
    s.note("convert_integer", &res);

    // ---- oracle: draft-07 reading, integer formats read as ranges; integers
    // are compared after conversion to f64 (what schemars/serde_json hand over)
    let row = fmt.and_then(format_row);
    let in_bounds = |v: f64| {
        minimum.map_or(true, |m| v >= m)
            && exclusive_minimum.map_or(true, |m| v > m)
            && maximum.map_or(true, |m| v <= m)
            && exclusive_maximum.map_or(true, |m| v < m)
    };
    let in_format = |v: i128| row.map_or(true, |(_, lo, hi)| v >= lo && v <= hi);
    let admitted = in_bounds(x) && in_format(n) && (multiple_of.is_none() || n % 2 == 0);

    match &res {
        Ok(name) => {
            let range = type_range(name);
            // the selected type is one of the documented built-in integers
            assert!(range.is_some(), "C10: selected type is not a known built-in integer type");
            let (tmin, tmax) = range.unwrap();
            let is_i64 = name_is(name, "i64");

            // A1 representability (covers the NonZero clause: range starts at 1).
            // Beyond i64::MAX the documented fallback `i64` is acceptable.
            if cfg.probe && admitted {
                let fits = n >= tmin && n <= tmax;
                let fallback = is_i64 && n > i64::MAX as i128;
                assert!(fits || fallback, "C10: admitted integer not representable in the selected type");
            }

            // A3 recognised format with no keyword (or only the bounds schemars
            // emits for that type) selects the documented type; unknown or no
            // format with no keyword selects i64.
            let no_excl_mult = exclusive_minimum.is_none() && exclusive_maximum.is_none() && multiple_of.is_none();
            match row {
                Some((ty, lo, hi)) => {
                    let min_plain = minimum.map_or(true, |m| m == lo as f64);
                    let max_plain = maximum.map_or(true, |m| m == hi as f64);
                    if no_excl_mult && min_plain && max_plain {
                        assert!(name_is(name, ty), "C10: recognised format does not select its documented type");
                    }
                }
                None => {
                    if no_excl_mult && minimum.is_none() && maximum.is_none() {
                        assert!(is_i64, "C10: unknown/absent format without bounds must select i64");
                    }
                }
            }

            // A4a (C06) an accepted default must be a value of the selected
            // type: the emitted default fn is `T::try_from(V).unwrap()`.
            if let Some((d, _, _)) = &default {
                assert!(*d >= tmin && *d <= tmax, "C06: accepted integer default is not a value of the selected type");
            }
            crate::cover!(s, admitted && !is_i64, "admitted probe, narrow type");
            crate::cover!(s, default.is_some(), "default accepted");
        }
        Err(()) => {
            // Without a default there is nothing to reject.
            assert!(default.is_some(), "C10: integer schema without default rejected");
            crate::cover!(s, true, "default rejected");
        }
    }

    // A4b (C10 last sentence, C06) a default outside the admitted range is an error.
    // Outside a declared bound: always. Outside the range of a recognised
    // format: on every side where the declared bounds do not themselves reach
    // beyond the format (where they do, the keywords contradict the format and
    // typify lets the declared bound win; the property does not say which
    // reading is right, so the weaker one is asserted).
    if let Some((d, dx, _)) = &default {
        let mut invalid = !in_bounds(*dx);
        if let Some((_, lo, hi)) = row {
            let has_lower = minimum.is_some() || exclusive_minimum.is_some();
            let has_upper = maximum.is_some() || exclusive_maximum.is_some();
            let below = lo as f64 - 1.0;
            let above = hi as f64 + 1.0;
            let lo_contra = has_lower
                && minimum.map_or(true, |m| below >= m)
                && exclusive_minimum.map_or(true, |m| below > m);
            let hi_contra = has_upper
                && maximum.map_or(true, |m| above <= m)
                && exclusive_maximum.map_or(true, |m| above < m);
            // compared in f64 like the declared bounds (serde_json's `as_f64`
            // is all typify gets to see); A4a above is the exact check.
            let _ = d;
            invalid = invalid || (*dx < lo as f64 && !lo_contra) || (*dx > hi as f64 && !hi_contra);
            crate::cover!(s, lo_contra || hi_contra, "bounds contradict format");
        }
        if invalid {
            assert!(res.is_err(), "C10/C06: integer default outside the admitted range accepted");
        }
    }

    std::mem::forget(res);
    std::mem::forget(metadata);
    std::mem::forget(validation);
    std::mem::forget(format);
    std::mem::forget(ts);
}

/// C10, string and float formats: for **every** ASCII format string of `len`
/// bytes, `convert_string` selects the documented native type for the
/// recognised formats and `String` for everything else; `convert_number` selects
/// f32 for "float" and f64 for everything else.
pub fn format_tables<S: Src>(s: &mut S, len: usize) {
    let mut ts = hooks::empty_type_space();
    let mut buf = [0u8; 10];
    let mut i = 0;
    while i < len {
        let b = s.u8();
        s.assume(b < 0x80);
        buf[i] = b;
        i += 1;
    }
    // SAFETY: ASCII
    let text = unsafe { std::str::from_utf8_unchecked(&buf[..len]) };
    #[cfg(not(kani))]
    s.note("format", &text);
    let is = |w: &str| name_is(text, w);
    let want = if is("uuid") {
        "::uuid::Uuid"
    } else if is("date") {
        "::chrono::naive::NaiveDate"
    } else if is("date-time") {
        "::chrono::DateTime<::chrono::offset::Utc>"
    } else if is("ip") {
        "::std::net::IpAddr"
    } else if is("ipv4") {
        "::std::net::Ipv4Addr"
    } else if is("ipv6") {
        "::std::net::Ipv6Addr"
    } else {
        "String"
    };
    let format = Some(text.to_string());
    let got = hooks::convert_string_format(&mut ts, &format);
    #[cfg(not(kani))]
    s.note("convert_string", &got);
    match &got {
        Ok(name) => assert!(name_is(name, want), "C10: string format does not map to its documented type (unrecognised formats must degrade to String)"),
        Err(()) => panic!("C10: string schema with a format rejected"),
    }
    let num = hooks::convert_number(&ts, &None, &None, &format);
    #[cfg(not(kani))]
    s.note("convert_number", &num);
    let want_num = if is("float") { "f32" } else { "f64" };
    match &num {
        Ok(name) => assert!(name_is(name, want_num), "C10: number format does not map to its documented type (unrecognised formats must degrade to f64)"),
        Err(()) => panic!("C10: number schema with a format rejected"),
    }
    crate::cover!(s, !name_is(want, "String"), "recognised string format");
    std::mem::forget(got);
    std::mem::forget(num);
    std::mem::forget(format);
    std::mem::forget(ts);
}
