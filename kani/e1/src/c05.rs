//! C05 (generation-time half): `util::StringValidator` decides which enum
//! values survive when a string enum also carries minLength/maxLength
//! (convert.rs `convert_enum_string`). JSON Schema counts Unicode scalar values.
//!
//! Strings are valid-by-construction UTF-8 with a *concrete byte layout* (one
//! harness per sequence of encoded widths) and *symbolic code points*; min and
//! max are each absent or any u32.

use crate::src::{encode_scalar, Src};
use schemars::schema::StringValidation;
use typify_impl::verif_hooks as hooks;

pub fn validator<S: Src>(s: &mut S, widths: &'static [u8]) {
    let mut buf = [0u8; 16];
    let mut at = 0;
    let mut i = 0;
    while i < widths.len() {
        let c = s.scalar(widths[i]);
        at = encode_scalar(&mut buf, at, c, widths[i]);
        i += 1;
    }
    // SAFETY: every scalar is encoded by `encode_scalar` from a code point
    // assumed inside its width class (surrogates excluded).
    let text = unsafe { std::str::from_utf8_unchecked(&buf[..at]) };
    let min_length = s.opt_u32();
    let max_length = s.opt_u32();
    #[cfg(not(kani))]
    {
        s.note("string", &text);
        s.note("minLength", &min_length);
        s.note("maxLength", &max_length);
    }
    let sv = StringValidation { max_length, min_length, pattern: None };
    let got = hooks::string_validator_is_valid(Some(&sv), text);
    #[cfg(not(kani))]
    s.note("is_valid", &got);
    let k = widths.len() as u32;
    let want = min_length.map_or(true, |m| k >= m) && max_length.map_or(true, |m| k <= m);
    assert!(got == Some(want), "C05: enum-value filter disagrees with minLength/maxLength counted in Unicode scalar values");
    crate::cover!(s, want, "string satisfies the length constraints");
    crate::cover!(s, !want, "string violates a length constraint");
}

