//! C09: the leaf kernels `allOf` merging bottoms out in
//! (typify-impl/src/merge.rs): `merge_so_instance_type`, `merge_so_array`
//! (length constraints), `merge_so_format`. Assertion: the merged constraint
//! admits a probe exactly when both operands admit it (intersection), in both
//! argument orders; an empty intersection is reported as unsatisfiable (Err).

use crate::src::Src;
use schemars::schema::{ArrayValidation, InstanceType, SingleOrVec};
use typify_impl::verif_hooks as hooks;

fn any_it<S: Src>(s: &mut S) -> InstanceType {
    use InstanceType::*;
    match s.below(7) {
        0 => Null,
        1 => Boolean,
        2 => Object,
        3 => Array,
        4 => Number,
        5 => String,
        _ => Integer,
    }
}

/// Operand layout: 0 = absent, 1 = single type, 2 = list of two types, 3 = list of three.
fn operand<S: Src>(s: &mut S, layout: u8) -> Option<SingleOrVec<InstanceType>> {
    match layout {
        0 => None,
        1 => Some(SingleOrVec::Single(Box::new(any_it(s)))),
        2 => Some(SingleOrVec::Vec(vec![any_it(s), any_it(s)])),
        _ => Some(SingleOrVec::Vec(vec![any_it(s), any_it(s), any_it(s)])),
    }
}

/// Draft-07: does a schema with this `type` keyword admit a value whose most
/// specific JSON type is `t`? (`number` admits integers.)
fn admits(ty: &Option<SingleOrVec<InstanceType>>, t: InstanceType) -> bool {
    let one = |x: InstanceType| x == t || (x == InstanceType::Number && t == InstanceType::Integer);
    match ty {
        None => true,
        Some(SingleOrVec::Single(x)) => one(**x),
        Some(SingleOrVec::Vec(v)) => {
            let mut any = false;
            let mut i = 0;
            while i < v.len() {
                any = any || one(v[i]);
                i += 1;
            }
            any
        }
    }
}

pub fn instance_type<S: Src>(s: &mut S, la: u8, lb: u8) {
    let a = operand(s, la);
    let b = operand(s, lb);
    let t = any_it(s);
    #[cfg(not(kani))]
    {
        s.note("a", &a);
        s.note("b", &b);
        s.note("probe type", &t);
    }
    let ab = hooks::merge_instance_type(a.as_ref(), b.as_ref());
    let ba = hooks::merge_instance_type(b.as_ref(), a.as_ref());
    #[cfg(not(kani))]
    {
        s.note("merge(a,b)", &ab);
        s.note("merge(b,a)", &ba);
    }
    let both = admits(&a, t) && admits(&b, t);
    let got_ab = match &ab {
        Err(()) => false,
        Ok(o) => admits(o, t),
    };
    let got_ba = match &ba {
        Err(()) => false,
        Ok(o) => admits(o, t),
    };
    assert!(got_ab == both, "C09: merged instance types are not the intersection of the operands");
    assert!(got_ab == got_ba, "C09: merging instance types depends on operand order");
    crate::cover!(s, both, "probe admitted by both");
    crate::cover!(s, ab.is_err(), "unsatisfiable");
    std::mem::forget(ab);
    std::mem::forget(ba);
    std::mem::forget(a);
    std::mem::forget(b);
}

fn len_ok(v: &ArrayValidation, n: u32) -> bool {
    v.min_items.map_or(true, |x| n >= x) && v.max_items.map_or(true, |x| n <= x)
}

/// `merge_so_array` with `items` absent: minItems/maxItems of both sides
/// symbolic (each absent or any u32), uniqueItems symbolic, probe length symbolic.
pub fn array_len<S: Src>(s: &mut S) {
    let uniq = |s: &mut S| match s.below(3) {
        0 => None,
        1 => Some(false),
        _ => Some(true),
    };
    let a = ArrayValidation { min_items: s.opt_u32(), max_items: s.opt_u32(), unique_items: uniq(s), ..Default::default() };
    let b = ArrayValidation { min_items: s.opt_u32(), max_items: s.opt_u32(), unique_items: uniq(s), ..Default::default() };
    let n = s.u32();
    #[cfg(not(kani))]
    {
        s.note("a", &(a.min_items, a.max_items, a.unique_items));
        s.note("b", &(b.min_items, b.max_items, b.unique_items));
        s.note("probe length", &n);
    }
    let ab = hooks::merge_array(Some(&a), Some(&b));
    let ba = hooks::merge_array(Some(&b), Some(&a));
    let both = len_ok(&a, n) && len_ok(&b, n);
    let view = |m: &Result<Option<Box<ArrayValidation>>, ()>| match m {
        Err(()) => (false, None),
        Ok(Some(v)) => (len_ok(v, n), v.unique_items),
        Ok(None) => (true, None),
    };
    let (got_ab, u_ab) = view(&ab);
    let (got_ba, u_ba) = view(&ba);
    #[cfg(not(kani))]
    {
        s.note("merge(a,b) admits", &got_ab);
        s.note("merge(b,a) admits", &got_ba);
    }
    assert!(got_ab == both, "C09: merged array length bounds are not the intersection of the operands");
    assert!(got_ab == got_ba, "C09: merging array bounds depends on operand order");
    // uniqueItems: required by the conjunction iff required by either side
    if ab.is_ok() {
        let want = a.unique_items == Some(true) || b.unique_items == Some(true);
        assert!((u_ab == Some(true)) == want, "C09: merged uniqueItems is not the conjunction of the operands");
        assert!((u_ba == Some(true)) == want, "C09: merged uniqueItems depends on operand order");
    }
    crate::cover!(s, both, "length admitted by both");
    crate::cover!(s, ab.is_err(), "unsatisfiable");
    std::mem::forget(ab);
    std::mem::forget(ba);
}

/// The formats `merge_so_format` knows something about, plus two it does not.
const FORMATS: [&str; 8] = ["ip", "ipv4", "ipv6", "int8", "int32", "uuid", "date-time", "x"];

/// `merge_so_format`: order independence, idempotence, identity. (What the
/// intersection of two *different* formats is, is not defined by draft-07 -
/// formats are annotations - so only the algebraic laws are asserted.)
pub fn format<S: Src>(s: &mut S) {
    let pick = |s: &mut S| -> Option<String> {
        let k = s.below(9);
        if k == 8 {
            None
        } else {
            Some(FORMATS[k as usize].to_string())
        }
    };
    let a = pick(s);
    let b = pick(s);
    #[cfg(not(kani))]
    {
        s.note("a", &a);
        s.note("b", &b);
    }
    let ab = hooks::merge_format(a.as_ref(), b.as_ref());
    let ba = hooks::merge_format(b.as_ref(), a.as_ref());
    let eq = |x: &Option<String>, y: &Option<String>| match (x, y) {
        (None, None) => true,
        (Some(x), Some(y)) => str_eq(x, y),
        _ => false,
    };
    match (&ab, &ba) {
        (Ok(x), Ok(y)) => assert!(eq(x, y), "C09: merging formats depends on operand order"),
        (Err(()), Err(())) => {}
        _ => panic!("C09: merging formats depends on operand order (satisfiability)"),
    }
    if eq(&a, &b) {
        assert!(matches!(&ab, Ok(x) if eq(x, &a)), "C09: merging a format with itself changes it");
    }
    if b.is_none() {
        assert!(matches!(&ab, Ok(x) if eq(x, &a)), "C09: merging with an absent format changes the format");
    }
    std::mem::forget(ab);
    std::mem::forget(ba);
    std::mem::forget(a);
    std::mem::forget(b);
}

fn str_eq(a: &str, b: &str) -> bool {
    let (a, b) = (a.as_bytes(), b.as_bytes());
    if a.len() != b.len() {
        return false;
    }
    let mut i = 0;
    while i < a.len() {
        if a[i] != b[i] {
            return false;
        }
        i += 1;
    }
    true
}

