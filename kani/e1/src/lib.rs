//! Engine E1 harness crate. See /verif/DESIGN.md §4.2.
pub mod c05;
pub mod c09;
pub mod c10;
pub mod src;

use src::ReplaySrc;

/// Declares every harness once: as a `#[kani::proof]` (under Kani) and as an
/// entry of the native replay dispatcher.
macro_rules! harnesses {
    ($( $(#[$m:meta])* $name:ident => $e:expr ;)*) => {
        $(
            #[cfg(kani)]
            #[kani::proof]
            $(#[$m])*
            #[kani::stub(std::rt::thread_cleanup, crate::src::noop)]
            #[kani::stub(proc_macro2::detection::inside_proc_macro, crate::src::never)]
            fn $name() {
                let mut s = crate::src::KaniSrc;
                let f = $e;
                f(&mut s)
            }
        )*
        pub const HARNESSES: &[&str] = &[$(stringify!($name)),*];
        pub fn dispatch(name: &str, s: &mut ReplaySrc) -> bool {
            match name {
                $( stringify!($name) => { let f = $e; f(s); true } )*
                _ => false,
            }
        }
    };
}

harnesses! {
    #[kani::unwind(48)] c10_fmt_len0 => |s| c10::format_tables(s, 0);
    #[kani::unwind(48)] c10_fmt_len1 => |s| c10::format_tables(s, 1);
    #[kani::unwind(48)] c10_fmt_len2 => |s| c10::format_tables(s, 2);
    #[kani::unwind(48)] c10_fmt_len3 => |s| c10::format_tables(s, 3);
    #[kani::unwind(48)] c10_fmt_len4 => |s| c10::format_tables(s, 4);
    #[kani::unwind(48)] c10_fmt_len5 => |s| c10::format_tables(s, 5);
    #[kani::unwind(48)] c10_fmt_len6 => |s| c10::format_tables(s, 6);
    #[kani::unwind(48)] c10_fmt_len7 => |s| c10::format_tables(s, 7);
    #[kani::unwind(48)] c10_fmt_len8 => |s| c10::format_tables(s, 8);
    #[kani::unwind(48)] c10_fmt_len9 => |s| c10::format_tables(s, 9);
    #[kani::unwind(24)] c05_sv_empty => |s| c05::validator(s, &[]);
    #[kani::unwind(24)] c05_sv_1 => |s| c05::validator(s, &[1]);
    #[kani::unwind(24)] c05_sv_2 => |s| c05::validator(s, &[2]);
    #[kani::unwind(24)] c05_sv_3 => |s| c05::validator(s, &[3]);
    #[kani::unwind(24)] c05_sv_4 => |s| c05::validator(s, &[4]);
    #[kani::unwind(24)] c05_sv_11 => |s| c05::validator(s, &[1, 1]);
    #[kani::unwind(24)] c05_sv_12 => |s| c05::validator(s, &[1, 2]);
    #[kani::unwind(24)] c05_sv_13 => |s| c05::validator(s, &[1, 3]);
    #[kani::unwind(24)] c05_sv_14 => |s| c05::validator(s, &[1, 4]);
    #[kani::unwind(24)] c05_sv_21 => |s| c05::validator(s, &[2, 1]);
    #[kani::unwind(24)] c05_sv_22 => |s| c05::validator(s, &[2, 2]);
    #[kani::unwind(24)] c05_sv_23 => |s| c05::validator(s, &[2, 3]);
    #[kani::unwind(24)] c05_sv_24 => |s| c05::validator(s, &[2, 4]);
    #[kani::unwind(24)] c05_sv_31 => |s| c05::validator(s, &[3, 1]);
    #[kani::unwind(24)] c05_sv_32 => |s| c05::validator(s, &[3, 2]);
    #[kani::unwind(24)] c05_sv_33 => |s| c05::validator(s, &[3, 3]);
    #[kani::unwind(24)] c05_sv_34 => |s| c05::validator(s, &[3, 4]);
    #[kani::unwind(24)] c05_sv_41 => |s| c05::validator(s, &[4, 1]);
    #[kani::unwind(24)] c05_sv_42 => |s| c05::validator(s, &[4, 2]);
    #[kani::unwind(24)] c05_sv_43 => |s| c05::validator(s, &[4, 3]);
    #[kani::unwind(24)] c05_sv_44 => |s| c05::validator(s, &[4, 4]);
    #[kani::unwind(24)] c05_sv_111 => |s| c05::validator(s, &[1, 1, 1]);
    #[kani::unwind(24)] c05_sv_112 => |s| c05::validator(s, &[1, 1, 2]);
    #[kani::unwind(24)] c05_sv_113 => |s| c05::validator(s, &[1, 1, 3]);
    #[kani::unwind(24)] c05_sv_114 => |s| c05::validator(s, &[1, 1, 4]);
    #[kani::unwind(24)] c05_sv_121 => |s| c05::validator(s, &[1, 2, 1]);
    #[kani::unwind(24)] c05_sv_122 => |s| c05::validator(s, &[1, 2, 2]);
    #[kani::unwind(24)] c05_sv_123 => |s| c05::validator(s, &[1, 2, 3]);
    #[kani::unwind(24)] c05_sv_124 => |s| c05::validator(s, &[1, 2, 4]);
    #[kani::unwind(24)] c05_sv_131 => |s| c05::validator(s, &[1, 3, 1]);
    #[kani::unwind(24)] c05_sv_132 => |s| c05::validator(s, &[1, 3, 2]);
    #[kani::unwind(24)] c05_sv_133 => |s| c05::validator(s, &[1, 3, 3]);
    #[kani::unwind(24)] c05_sv_134 => |s| c05::validator(s, &[1, 3, 4]);
    #[kani::unwind(24)] c05_sv_141 => |s| c05::validator(s, &[1, 4, 1]);
    #[kani::unwind(24)] c05_sv_142 => |s| c05::validator(s, &[1, 4, 2]);
    #[kani::unwind(24)] c05_sv_143 => |s| c05::validator(s, &[1, 4, 3]);
    #[kani::unwind(24)] c05_sv_144 => |s| c05::validator(s, &[1, 4, 4]);
    #[kani::unwind(24)] c05_sv_211 => |s| c05::validator(s, &[2, 1, 1]);
    #[kani::unwind(24)] c05_sv_212 => |s| c05::validator(s, &[2, 1, 2]);
    #[kani::unwind(24)] c05_sv_213 => |s| c05::validator(s, &[2, 1, 3]);
    #[kani::unwind(24)] c05_sv_214 => |s| c05::validator(s, &[2, 1, 4]);
    #[kani::unwind(24)] c05_sv_221 => |s| c05::validator(s, &[2, 2, 1]);
    #[kani::unwind(24)] c05_sv_222 => |s| c05::validator(s, &[2, 2, 2]);
    #[kani::unwind(24)] c05_sv_223 => |s| c05::validator(s, &[2, 2, 3]);
    #[kani::unwind(24)] c05_sv_224 => |s| c05::validator(s, &[2, 2, 4]);
    #[kani::unwind(24)] c05_sv_231 => |s| c05::validator(s, &[2, 3, 1]);
    #[kani::unwind(24)] c05_sv_232 => |s| c05::validator(s, &[2, 3, 2]);
    #[kani::unwind(24)] c05_sv_233 => |s| c05::validator(s, &[2, 3, 3]);
    #[kani::unwind(24)] c05_sv_234 => |s| c05::validator(s, &[2, 3, 4]);
    #[kani::unwind(24)] c05_sv_241 => |s| c05::validator(s, &[2, 4, 1]);
    #[kani::unwind(24)] c05_sv_242 => |s| c05::validator(s, &[2, 4, 2]);
    #[kani::unwind(24)] c05_sv_243 => |s| c05::validator(s, &[2, 4, 3]);
    #[kani::unwind(24)] c05_sv_244 => |s| c05::validator(s, &[2, 4, 4]);
    #[kani::unwind(24)] c05_sv_311 => |s| c05::validator(s, &[3, 1, 1]);
    #[kani::unwind(24)] c05_sv_312 => |s| c05::validator(s, &[3, 1, 2]);
    #[kani::unwind(24)] c05_sv_313 => |s| c05::validator(s, &[3, 1, 3]);
    #[kani::unwind(24)] c05_sv_314 => |s| c05::validator(s, &[3, 1, 4]);
    #[kani::unwind(24)] c05_sv_321 => |s| c05::validator(s, &[3, 2, 1]);
    #[kani::unwind(24)] c05_sv_322 => |s| c05::validator(s, &[3, 2, 2]);
    #[kani::unwind(24)] c05_sv_323 => |s| c05::validator(s, &[3, 2, 3]);
    #[kani::unwind(24)] c05_sv_324 => |s| c05::validator(s, &[3, 2, 4]);
    #[kani::unwind(24)] c05_sv_331 => |s| c05::validator(s, &[3, 3, 1]);
    #[kani::unwind(24)] c05_sv_332 => |s| c05::validator(s, &[3, 3, 2]);
    #[kani::unwind(24)] c05_sv_333 => |s| c05::validator(s, &[3, 3, 3]);
    #[kani::unwind(24)] c05_sv_334 => |s| c05::validator(s, &[3, 3, 4]);
    #[kani::unwind(24)] c05_sv_341 => |s| c05::validator(s, &[3, 4, 1]);
    #[kani::unwind(24)] c05_sv_342 => |s| c05::validator(s, &[3, 4, 2]);
    #[kani::unwind(24)] c05_sv_343 => |s| c05::validator(s, &[3, 4, 3]);
    #[kani::unwind(24)] c05_sv_344 => |s| c05::validator(s, &[3, 4, 4]);
    #[kani::unwind(24)] c05_sv_411 => |s| c05::validator(s, &[4, 1, 1]);
    #[kani::unwind(24)] c05_sv_412 => |s| c05::validator(s, &[4, 1, 2]);
    #[kani::unwind(24)] c05_sv_413 => |s| c05::validator(s, &[4, 1, 3]);
    #[kani::unwind(24)] c05_sv_414 => |s| c05::validator(s, &[4, 1, 4]);
    #[kani::unwind(24)] c05_sv_421 => |s| c05::validator(s, &[4, 2, 1]);
    #[kani::unwind(24)] c05_sv_422 => |s| c05::validator(s, &[4, 2, 2]);
    #[kani::unwind(24)] c05_sv_423 => |s| c05::validator(s, &[4, 2, 3]);
    #[kani::unwind(24)] c05_sv_424 => |s| c05::validator(s, &[4, 2, 4]);
    #[kani::unwind(24)] c05_sv_431 => |s| c05::validator(s, &[4, 3, 1]);
    #[kani::unwind(24)] c05_sv_432 => |s| c05::validator(s, &[4, 3, 2]);
    #[kani::unwind(24)] c05_sv_433 => |s| c05::validator(s, &[4, 3, 3]);
    #[kani::unwind(24)] c05_sv_434 => |s| c05::validator(s, &[4, 3, 4]);
    #[kani::unwind(24)] c05_sv_441 => |s| c05::validator(s, &[4, 4, 1]);
    #[kani::unwind(24)] c05_sv_442 => |s| c05::validator(s, &[4, 4, 2]);
    #[kani::unwind(24)] c05_sv_443 => |s| c05::validator(s, &[4, 4, 3]);
    #[kani::unwind(24)] c05_sv_444 => |s| c05::validator(s, &[4, 4, 4]);
    #[kani::unwind(24)] c09_it_00 => |s| c09::instance_type(s, 0, 0);
    #[kani::unwind(24)] c09_it_01 => |s| c09::instance_type(s, 0, 1);
    #[kani::unwind(24)] c09_it_02 => |s| c09::instance_type(s, 0, 2);
    #[kani::unwind(24)] c09_it_11 => |s| c09::instance_type(s, 1, 1);
    #[kani::unwind(24)] c09_it_12 => |s| c09::instance_type(s, 1, 2);
    #[kani::unwind(24)] c09_it_13 => |s| c09::instance_type(s, 1, 3);
    #[kani::unwind(24)] c09_array_len => |s| c09::array_len(s);
    #[kani::unwind(24)] c09_format => |s| c09::format(s);
    #[kani::unwind(24)] c10_none    => |s| c10::body(s, None);
    #[kani::unwind(24)] c10_unknown => |s| c10::body(s, Some("int128"));
    #[kani::unwind(24)] c10_int8    => |s| c10::body(s, Some("int8"));
    #[kani::unwind(24)] c10_uint8   => |s| c10::body(s, Some("uint8"));
    #[kani::unwind(24)] c10_int16   => |s| c10::body(s, Some("int16"));
    #[kani::unwind(24)] c10_uint16  => |s| c10::body(s, Some("uint16"));
    #[kani::unwind(24)] c10_int     => |s| c10::body(s, Some("int"));
    #[kani::unwind(24)] c10_int32   => |s| c10::body(s, Some("int32"));
    #[kani::unwind(24)] c10_uint    => |s| c10::body(s, Some("uint"));
    #[kani::unwind(24)] c10_uint32  => |s| c10::body(s, Some("uint32"));
    #[kani::unwind(24)] c10_int64   => |s| c10::body(s, Some("int64"));
    #[kani::unwind(24)] c10_uint64  => |s| c10::body(s, Some("uint64"));
}
