//! Engine E1 harness crate. See /verif/DESIGN.md §4.2.
pub mod c10;
pub mod src;

use src::ReplaySrc;

/// Declares every harness once: as a `#[kani::proof]` (under Kani) and as an
/// entry of the native replay dispatcher.
macro_rules! harnesses {
    ($( $(#[$m:meta])* $name:ident => $e:expr ;)*) => {
        $(
            #[cfg(kani)]
            #[kani::proof]
            $(#[$m])*
            #[kani::stub(std::rt::thread_cleanup, crate::src::noop)]
            #[kani::stub(proc_macro2::detection::inside_proc_macro, crate::src::never)]
            fn $name() {
                let mut s = crate::src::KaniSrc;
                let f = $e;
                f(&mut s)
            }
        )*
        pub const HARNESSES: &[&str] = &[$(stringify!($name)),*];
        pub fn dispatch(name: &str, s: &mut ReplaySrc) -> bool {
            match name {
                $( stringify!($name) => { let f = $e; f(s); true } )*
                _ => false,
            }
        }
    };
}

harnesses! {
    #[kani::unwind(24)] c10_none    => |s| c10::body(s, None);
    #[kani::unwind(24)] c10_unknown => |s| c10::body(s, Some("int128"));
    #[kani::unwind(24)] c10_int8    => |s| c10::body(s, Some("int8"));
    #[kani::unwind(24)] c10_uint8   => |s| c10::body(s, Some("uint8"));
    #[kani::unwind(24)] c10_int16   => |s| c10::body(s, Some("int16"));
    #[kani::unwind(24)] c10_uint16  => |s| c10::body(s, Some("uint16"));
    #[kani::unwind(24)] c10_int     => |s| c10::body(s, Some("int"));
    #[kani::unwind(24)] c10_int32   => |s| c10::body(s, Some("int32"));
    #[kani::unwind(24)] c10_uint    => |s| c10::body(s, Some("uint"));
    #[kani::unwind(24)] c10_uint32  => |s| c10::body(s, Some("uint32"));
    #[kani::unwind(24)] c10_int64   => |s| c10::body(s, Some("int64"));
    #[kani::unwind(24)] c10_uint64  => |s| c10::body(s, Some("uint64"));
}
