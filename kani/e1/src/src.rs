//! Input sources. A harness body is generic over `Src`; under Kani every draw is
//! a `kani::any()` of a primitive (one byte vector per draw in Kani's concrete
//! playback, in call order), natively the same draws are served from a recorded
//! list of byte vectors.

pub trait Src {
    fn u8(&mut self) -> u8;
    fn u16(&mut self) -> u16;
    fn u32(&mut self) -> u32;
    fn u64(&mut self) -> u64;
    /// Constrain the inputs (Kani: `assume`; replay: stop quietly, the recorded
    /// input is outside the harness's domain).
    fn assume(&mut self, c: bool);
    /// Reachability / vacuity witness (replay side; under Kani the `cover!`
    /// macro expands to `kani::cover!`, which needs a literal message).
    fn cover(&mut self, _c: bool, _what: &'static str) {}
    /// Record a decoded input for humans (replay only).
    fn note(&mut self, _k: &'static str, _v: &dyn std::fmt::Debug) {}

    fn bool(&mut self) -> bool {
        let b = self.u8();
        self.assume(b < 2);
        b == 1
    }
    fn i64(&mut self) -> i64 {
        self.u64() as i64
    }
    fn below(&mut self, n: u8) -> u8 {
        let b = self.u8();
        self.assume(b < n);
        b
    }
    fn f64_finite(&mut self) -> f64 {
        let x = f64::from_bits(self.u64());
        self.assume(x.is_finite());
        x
    }
    fn opt_f64_finite(&mut self) -> Option<f64> {
        if self.bool() {
            Some(self.f64_finite())
        } else {
            None
        }
    }
    fn opt_u32(&mut self) -> Option<u32> {
        if self.bool() {
            Some(self.u32())
        } else {
            None
        }
    }
    /// One Unicode scalar value whose UTF-8 encoding is exactly `width` bytes.
    fn scalar(&mut self, width: u8) -> u32 {
        let c = self.u32();
        match width {
            1 => self.assume(c <= 0x7F),
            2 => self.assume(c >= 0x80 && c <= 0x7FF),
            3 => self.assume(c >= 0x800 && c <= 0xFFFF && !(c >= 0xD800 && c <= 0xDFFF)),
            _ => self.assume(c >= 0x1_0000 && c <= 0x10_FFFF),
        }
        c
    }
}

/// Encode `c` (of UTF-8 width `w`) at `buf[at..]` with straight-line bit
/// operations; returns the next offset.
#[inline(always)]
pub fn encode_scalar(buf: &mut [u8], at: usize, c: u32, w: u8) -> usize {
    match w {
        1 => {
            buf[at] = c as u8;
        }
        2 => {
            buf[at] = 0xC0 | (c >> 6) as u8;
            buf[at + 1] = 0x80 | (c & 0x3F) as u8;
        }
        3 => {
            buf[at] = 0xE0 | (c >> 12) as u8;
            buf[at + 1] = 0x80 | ((c >> 6) & 0x3F) as u8;
            buf[at + 2] = 0x80 | (c & 0x3F) as u8;
        }
        _ => {
            buf[at] = 0xF0 | (c >> 18) as u8;
            buf[at + 1] = 0x80 | ((c >> 12) & 0x3F) as u8;
            buf[at + 2] = 0x80 | ((c >> 6) & 0x3F) as u8;
            buf[at + 3] = 0x80 | (c & 0x3F) as u8;
        }
    }
    at + w as usize
}

#[cfg(kani)]
pub struct KaniSrc;

#[cfg(kani)]
impl Src for KaniSrc {
    fn u8(&mut self) -> u8 {
        kani::any()
    }
    fn u16(&mut self) -> u16 {
        kani::any()
    }
    fn u32(&mut self) -> u32 {
        kani::any()
    }
    fn u64(&mut self) -> u64 {
        kani::any()
    }
    fn assume(&mut self, c: bool) {
        kani::assume(c)
    }
}

/// Marker payload used to unwind out of a replay whose recorded input violates
/// an `assume` (never happens for vectors produced by Kani).
pub struct OutsideDomain;

pub struct ReplaySrc {
    pub draws: Vec<Vec<u8>>,
    pub next: usize,
    pub notes: Vec<(String, String)>,
    pub covers: Vec<(String, bool)>,
}

impl ReplaySrc {
    pub fn new(draws: Vec<Vec<u8>>) -> Self {
        Self {
            draws,
            next: 0,
            notes: Vec::new(),
            covers: Vec::new(),
        }
    }
    fn take(&mut self, n: usize) -> u64 {
        let v = match self.draws.get(self.next) {
            Some(v) => v.clone(),
            None => std::panic::panic_any(OutsideDomain),
        };
        self.next += 1;
        if v.len() != n {
            eprintln!("replay: draw {} has {} bytes, harness asked for {}", self.next - 1, v.len(), n);
            std::panic::panic_any(OutsideDomain);
        }
        let mut x = 0u64;
        for (i, b) in v.iter().enumerate() {
            x |= (*b as u64) << (8 * i);
        }
        x
    }
}

impl Src for ReplaySrc {
    fn u8(&mut self) -> u8 {
        self.take(1) as u8
    }
    fn u16(&mut self) -> u16 {
        self.take(2) as u16
    }
    fn u32(&mut self) -> u32 {
        self.take(4) as u32
    }
    fn u64(&mut self) -> u64 {
        self.take(8)
    }
    fn assume(&mut self, c: bool) {
        if !c {
            std::panic::panic_any(OutsideDomain)
        }
    }
    fn cover(&mut self, c: bool, what: &'static str) {
        self.covers.push((what.to_string(), c));
    }
    fn note(&mut self, k: &'static str, v: &dyn std::fmt::Debug) {
        self.notes.push((k.to_string(), format!("{:?}", v)));
    }
}

pub fn noop() {}
/// Stub for `alloc::fmt::format`: error messages are not the subject.
pub fn no_format(_args: std::fmt::Arguments<'_>) -> String {
    String::new()
}
pub fn never() -> bool {
    false
}

/// `cover!(src, cond, "what")`: vacuity / reachability witness.
#[macro_export]
macro_rules! cover {
    ($s:expr, $c:expr, $what:literal) => {{
        #[cfg(kani)]
        {
            let _ = &$s;
            kani::cover!($c, $what);
        }
        #[cfg(not(kani))]
        {
            $crate::src::Src::cover($s, $c, $what);
        }
    }};
}
