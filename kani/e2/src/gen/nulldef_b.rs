/// Error types.
pub mod error {
    /// Error from a `TryFrom` or `FromStr` implementation.
    pub struct ConversionError(::std::borrow::Cow<'static, str>);
    impl ::std::error::Error for ConversionError {}
    impl ::std::fmt::Display for ConversionError {
        fn fmt(
            &self,
            f: &mut ::std::fmt::Formatter<'_>,
        ) -> Result<(), ::std::fmt::Error> {
            ::std::fmt::Display::fmt(&self.0, f)
        }
    }
    impl ::std::fmt::Debug for ConversionError {
        fn fmt(
            &self,
            f: &mut ::std::fmt::Formatter<'_>,
        ) -> Result<(), ::std::fmt::Error> {
            ::std::fmt::Debug::fmt(&self.0, f)
        }
    }
    impl From<&'static str> for ConversionError {
        fn from(value: &'static str) -> Self {
            Self(value.into())
        }
    }
    impl From<String> for ConversionError {
        fn from(value: String) -> Self {
            Self(value.into())
        }
    }
}
///`RetryPolicy`
///
/// <details><summary>JSON schema</summary>
///
/// ```json
///{
///  "type": "object",
///  "required": [
///    "name"
///  ],
///  "properties": {
///    "backoff": {
///      "default": 7,
///      "type": [
///        "integer",
///        "null"
///      ]
///    },
///    "name": {
///      "type": "string"
///    },
///    "prefix": {
///      "default": "",
///      "type": [
///        "string",
///        "null"
///      ]
///    },
///    "retries": {
///      "default": 0,
///      "type": [
///        "integer",
///        "null"
///      ]
///    },
///    "verbose": {
///      "default": false,
///      "type": [
///        "boolean",
///        "null"
///      ]
///    }
///  }
///}
/// ```
/// </details>
#[derive(::serde::Deserialize, ::serde::Serialize, Clone, Debug)]
pub struct RetryPolicy {
    #[serde(default = "defaults::retry_policy_backoff")]
    pub backoff: ::std::option::Option<i64>,
    pub name: ::std::string::String,
    #[serde(default = "defaults::retry_policy_prefix")]
    pub prefix: ::std::option::Option<::std::string::String>,
    #[serde(default = "defaults::retry_policy_retries")]
    pub retries: ::std::option::Option<i64>,
    #[serde(default = "defaults::retry_policy_verbose")]
    pub verbose: ::std::option::Option<bool>,
}
impl ::std::convert::From<&RetryPolicy> for RetryPolicy {
    fn from(value: &RetryPolicy) -> Self {
        value.clone()
    }
}
impl RetryPolicy {
    pub fn builder() -> builder::RetryPolicy {
        Default::default()
    }
}
/// Types for composing complex structures.
pub mod builder {
    #[derive(Clone, Debug)]
    pub struct RetryPolicy {
        backoff: ::std::result::Result<
            ::std::option::Option<i64>,
            ::std::string::String,
        >,
        name: ::std::result::Result<::std::string::String, ::std::string::String>,
        prefix: ::std::result::Result<
            ::std::option::Option<::std::string::String>,
            ::std::string::String,
        >,
        retries: ::std::result::Result<
            ::std::option::Option<i64>,
            ::std::string::String,
        >,
        verbose: ::std::result::Result<
            ::std::option::Option<bool>,
            ::std::string::String,
        >,
    }
    impl ::std::default::Default for RetryPolicy {
        fn default() -> Self {
            Self {
                backoff: Ok(super::defaults::retry_policy_backoff()),
                name: Err("no value supplied for name".to_string()),
                prefix: Ok(super::defaults::retry_policy_prefix()),
                retries: Ok(super::defaults::retry_policy_retries()),
                verbose: Ok(super::defaults::retry_policy_verbose()),
            }
        }
    }
    impl RetryPolicy {
        pub fn backoff<T>(mut self, value: T) -> Self
        where
            T: ::std::convert::TryInto<::std::option::Option<i64>>,
            T::Error: ::std::fmt::Display,
        {
            self.backoff = value
                .try_into()
                .map_err(|e| {
                    format!("error converting supplied value for backoff: {}", e)
                });
            self
        }
        pub fn name<T>(mut self, value: T) -> Self
        where
            T: ::std::convert::TryInto<::std::string::String>,
            T::Error: ::std::fmt::Display,
        {
            self.name = value
                .try_into()
                .map_err(|e| format!("error converting supplied value for name: {}", e));
            self
        }
        pub fn prefix<T>(mut self, value: T) -> Self
        where
            T: ::std::convert::TryInto<::std::option::Option<::std::string::String>>,
            T::Error: ::std::fmt::Display,
        {
            self.prefix = value
                .try_into()
                .map_err(|e| {
                    format!("error converting supplied value for prefix: {}", e)
                });
            self
        }
        pub fn retries<T>(mut self, value: T) -> Self
        where
            T: ::std::convert::TryInto<::std::option::Option<i64>>,
            T::Error: ::std::fmt::Display,
        {
            self.retries = value
                .try_into()
                .map_err(|e| {
                    format!("error converting supplied value for retries: {}", e)
                });
            self
        }
        pub fn verbose<T>(mut self, value: T) -> Self
        where
            T: ::std::convert::TryInto<::std::option::Option<bool>>,
            T::Error: ::std::fmt::Display,
        {
            self.verbose = value
                .try_into()
                .map_err(|e| {
                    format!("error converting supplied value for verbose: {}", e)
                });
            self
        }
    }
    impl ::std::convert::TryFrom<RetryPolicy> for super::RetryPolicy {
        type Error = super::error::ConversionError;
        fn try_from(
            value: RetryPolicy,
        ) -> ::std::result::Result<Self, super::error::ConversionError> {
            Ok(Self {
                backoff: value.backoff?,
                name: value.name?,
                prefix: value.prefix?,
                retries: value.retries?,
                verbose: value.verbose?,
            })
        }
    }
    impl ::std::convert::From<super::RetryPolicy> for RetryPolicy {
        fn from(value: super::RetryPolicy) -> Self {
            Self {
                backoff: Ok(value.backoff),
                name: Ok(value.name),
                prefix: Ok(value.prefix),
                retries: Ok(value.retries),
                verbose: Ok(value.verbose),
            }
        }
    }
}
/// Generation of default values for serde.
pub mod defaults {
    pub(super) fn retry_policy_backoff() -> ::std::option::Option<i64> {
        ::std::option::Option::Some(7_i64)
    }
    pub(super) fn retry_policy_prefix() -> ::std::option::Option<::std::string::String> {
        ::std::option::Option::Some("".to_string())
    }
    pub(super) fn retry_policy_retries() -> ::std::option::Option<i64> {
        ::std::option::Option::Some(0_i64)
    }
    pub(super) fn retry_policy_verbose() -> ::std::option::Option<bool> {
        ::std::option::Option::Some(false)
    }
}
