/// Error types.
pub mod error {
    /// Error from a `TryFrom` or `FromStr` implementation.
    pub struct ConversionError(::std::borrow::Cow<'static, str>);
    impl ::std::error::Error for ConversionError {}
    impl ::std::fmt::Display for ConversionError {
        fn fmt(
            &self,
            f: &mut ::std::fmt::Formatter<'_>,
        ) -> Result<(), ::std::fmt::Error> {
            ::std::fmt::Display::fmt(&self.0, f)
        }
    }
    impl ::std::fmt::Debug for ConversionError {
        fn fmt(
            &self,
            f: &mut ::std::fmt::Formatter<'_>,
        ) -> Result<(), ::std::fmt::Error> {
            ::std::fmt::Debug::fmt(&self.0, f)
        }
    }
    impl From<&'static str> for ConversionError {
        fn from(value: &'static str) -> Self {
            Self(value.into())
        }
    }
    impl From<String> for ConversionError {
        fn from(value: String) -> Self {
            Self(value.into())
        }
    }
}
///`Pt`
///
/// <details><summary>JSON schema</summary>
///
/// ```json
///{
///  "type": "object",
///  "required": [
///    "x"
///  ],
///  "properties": {
///    "foo-bar": {
///      "type": "string"
///    },
///    "type": {
///      "type": [
///        "boolean",
///        "null"
///      ]
///    },
///    "x": {
///      "type": "integer",
///      "format": "uint8"
///    },
///    "y": {
///      "default": 7,
///      "type": "integer"
///    }
///  }
///}
/// ```
/// </details>
#[derive(::serde::Deserialize, ::serde::Serialize, Clone, Debug)]
pub struct Pt {
    #[serde(
        rename = "foo-bar",
        default,
        skip_serializing_if = "::std::option::Option::is_none"
    )]
    pub foo_bar: ::std::option::Option<::std::string::String>,
    #[serde(
        rename = "type",
        default,
        skip_serializing_if = "::std::option::Option::is_none"
    )]
    pub type_: ::std::option::Option<bool>,
    pub x: u8,
    #[serde(default = "defaults::default_u64::<i64, 7>")]
    pub y: i64,
}
impl ::std::convert::From<&Pt> for Pt {
    fn from(value: &Pt) -> Self {
        value.clone()
    }
}
impl Pt {
    pub fn builder() -> builder::Pt {
        Default::default()
    }
}
/// Types for composing complex structures.
pub mod builder {
    #[derive(Clone, Debug)]
    pub struct Pt {
        foo_bar: ::std::result::Result<
            ::std::option::Option<::std::string::String>,
            ::std::string::String,
        >,
        type_: ::std::result::Result<::std::option::Option<bool>, ::std::string::String>,
        x: ::std::result::Result<u8, ::std::string::String>,
        y: ::std::result::Result<i64, ::std::string::String>,
    }
    impl ::std::default::Default for Pt {
        fn default() -> Self {
            Self {
                foo_bar: Ok(Default::default()),
                type_: Ok(Default::default()),
                x: Err("no value supplied for x".to_string()),
                y: Ok(super::defaults::default_u64::<i64, 7>()),
            }
        }
    }
    impl Pt {
        pub fn foo_bar<T>(mut self, value: T) -> Self
        where
            T: ::std::convert::TryInto<::std::option::Option<::std::string::String>>,
            T::Error: ::std::fmt::Display,
        {
            self.foo_bar = value
                .try_into()
                .map_err(|e| {
                    format!("error converting supplied value for foo_bar: {}", e)
                });
            self
        }
        pub fn type_<T>(mut self, value: T) -> Self
        where
            T: ::std::convert::TryInto<::std::option::Option<bool>>,
            T::Error: ::std::fmt::Display,
        {
            self.type_ = value
                .try_into()
                .map_err(|e| {
                    format!("error converting supplied value for type_: {}", e)
                });
            self
        }
        pub fn x<T>(mut self, value: T) -> Self
        where
            T: ::std::convert::TryInto<u8>,
            T::Error: ::std::fmt::Display,
        {
            self.x = value
                .try_into()
                .map_err(|e| format!("error converting supplied value for x: {}", e));
            self
        }
        pub fn y<T>(mut self, value: T) -> Self
        where
            T: ::std::convert::TryInto<i64>,
            T::Error: ::std::fmt::Display,
        {
            self.y = value
                .try_into()
                .map_err(|e| format!("error converting supplied value for y: {}", e));
            self
        }
    }
    impl ::std::convert::TryFrom<Pt> for super::Pt {
        type Error = super::error::ConversionError;
        fn try_from(
            value: Pt,
        ) -> ::std::result::Result<Self, super::error::ConversionError> {
            Ok(Self {
                foo_bar: value.foo_bar?,
                type_: value.type_?,
                x: value.x?,
                y: value.y?,
            })
        }
    }
    impl ::std::convert::From<super::Pt> for Pt {
        fn from(value: super::Pt) -> Self {
            Self {
                foo_bar: Ok(value.foo_bar),
                type_: Ok(value.type_),
                x: Ok(value.x),
                y: Ok(value.y),
            }
        }
    }
}
/// Generation of default values for serde.
pub mod defaults {
    pub(super) fn default_u64<T, const V: u64>() -> T
    where
        T: ::std::convert::TryFrom<u64>,
        <T as ::std::convert::TryFrom<u64>>::Error: ::std::fmt::Debug,
    {
        T::try_from(V).unwrap()
    }
}
