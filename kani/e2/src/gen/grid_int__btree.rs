/// Error types.
pub mod error {
    /// Error from a `TryFrom` or `FromStr` implementation.
    pub struct ConversionError(::std::borrow::Cow<'static, str>);
    impl ::std::error::Error for ConversionError {}
    impl ::std::fmt::Display for ConversionError {
        fn fmt(
            &self,
            f: &mut ::std::fmt::Formatter<'_>,
        ) -> Result<(), ::std::fmt::Error> {
            ::std::fmt::Display::fmt(&self.0, f)
        }
    }
    impl ::std::fmt::Debug for ConversionError {
        fn fmt(
            &self,
            f: &mut ::std::fmt::Formatter<'_>,
        ) -> Result<(), ::std::fmt::Error> {
            ::std::fmt::Debug::fmt(&self.0, f)
        }
    }
    impl From<&'static str> for ConversionError {
        fn from(value: &'static str) -> Self {
            Self(value.into())
        }
    }
    impl From<String> for ConversionError {
        fn from(value: String) -> Self {
            Self(value.into())
        }
    }
}
///`G`
///
/// <details><summary>JSON schema</summary>
///
/// ```json
///{
///  "type": "object",
///  "required": [
///    "a-req"
///  ],
///  "properties": {
///    "a-req": {
///      "type": "integer",
///      "format": "int16"
///    },
///    "bOpt": {
///      "type": "integer",
///      "format": "int16"
///    },
///    "c-def0": {
///      "default": 0,
///      "type": "integer",
///      "format": "int16"
///    },
///    "dDef": {
///      "default": -5,
///      "type": "integer",
///      "format": "int16"
///    },
///    "e-null": {
///      "type": [
///        "integer",
///        "null"
///      ],
///      "format": "int16"
///    },
///    "fNullDef": {
///      "default": -5,
///      "type": [
///        "integer",
///        "null"
///      ],
///      "format": "int16"
///    }
///  }
///}
/// ```
/// </details>
#[derive(::serde::Deserialize, ::serde::Serialize, Clone, Debug)]
pub struct G {
    #[serde(rename = "a-req")]
    pub a_req: i16,
    #[serde(
        rename = "bOpt",
        default,
        skip_serializing_if = "::std::option::Option::is_none"
    )]
    pub b_opt: ::std::option::Option<i16>,
    #[serde(rename = "c-def0", default)]
    pub c_def0: i16,
    #[serde(rename = "dDef", default = "defaults::default_i64::<i16, -5>")]
    pub d_def: i16,
    #[serde(
        rename = "e-null",
        default,
        skip_serializing_if = "::std::option::Option::is_none"
    )]
    pub e_null: ::std::option::Option<i16>,
    #[serde(rename = "fNullDef", default = "defaults::g_f_null_def")]
    pub f_null_def: ::std::option::Option<i16>,
}
impl ::std::convert::From<&G> for G {
    fn from(value: &G) -> Self {
        value.clone()
    }
}
/// Generation of default values for serde.
pub mod defaults {
    pub(super) fn default_i64<T, const V: i64>() -> T
    where
        T: ::std::convert::TryFrom<i64>,
        <T as ::std::convert::TryFrom<i64>>::Error: ::std::fmt::Debug,
    {
        T::try_from(V).unwrap()
    }
    pub(super) fn g_f_null_def() -> ::std::option::Option<i16> {
        ::std::option::Option::Some(-5_i16)
    }
}
