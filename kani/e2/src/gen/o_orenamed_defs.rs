/// Error types.
pub mod error {
    /// Error from a `TryFrom` or `FromStr` implementation.
    pub struct ConversionError(::std::borrow::Cow<'static, str>);
    impl ::std::error::Error for ConversionError {}
    impl ::std::fmt::Display for ConversionError {
        fn fmt(
            &self,
            f: &mut ::std::fmt::Formatter<'_>,
        ) -> Result<(), ::std::fmt::Error> {
            ::std::fmt::Display::fmt(&self.0, f)
        }
    }
    impl ::std::fmt::Debug for ConversionError {
        fn fmt(
            &self,
            f: &mut ::std::fmt::Formatter<'_>,
        ) -> Result<(), ::std::fmt::Error> {
            ::std::fmt::Debug::fmt(&self.0, f)
        }
    }
    impl From<&'static str> for ConversionError {
        fn from(value: &'static str) -> Self {
            Self(value.into())
        }
    }
    impl From<String> for ConversionError {
        fn from(value: String) -> Self {
            Self(value.into())
        }
    }
}
///`ORenamed`
///
/// <details><summary>JSON schema</summary>
///
/// ```json
///{
///  "title": "ORenamed",
///  "type": "object",
///  "required": [
///    "display-name",
///    "isActive",
///    "userId"
///  ],
///  "properties": {
///    "display-name": {
///      "type": "string"
///    },
///    "isActive": {
///      "type": "boolean"
///    },
///    "userId": {
///      "type": "integer",
///      "format": "uint32",
///      "minimum": 0.0
///    }
///  }
///}
/// ```
/// </details>
#[derive(::serde::Deserialize, ::serde::Serialize, Clone, Debug)]
pub struct ORenamed {
    #[serde(rename = "display-name")]
    pub display_name: ::std::string::String,
    #[serde(rename = "isActive")]
    pub is_active: bool,
    #[serde(rename = "userId")]
    pub user_id: u32,
}
impl ::std::convert::From<&ORenamed> for ORenamed {
    fn from(value: &ORenamed) -> Self {
        value.clone()
    }
}
