/// Error types.
pub mod error {
    /// Error from a `TryFrom` or `FromStr` implementation.
    pub struct ConversionError(::std::borrow::Cow<'static, str>);
    impl ::std::error::Error for ConversionError {}
    impl ::std::fmt::Display for ConversionError {
        fn fmt(
            &self,
            f: &mut ::std::fmt::Formatter<'_>,
        ) -> Result<(), ::std::fmt::Error> {
            ::std::fmt::Display::fmt(&self.0, f)
        }
    }
    impl ::std::fmt::Debug for ConversionError {
        fn fmt(
            &self,
            f: &mut ::std::fmt::Formatter<'_>,
        ) -> Result<(), ::std::fmt::Error> {
            ::std::fmt::Debug::fmt(&self.0, f)
        }
    }
    impl From<&'static str> for ConversionError {
        fn from(value: &'static str) -> Self {
            Self(value.into())
        }
    }
    impl From<String> for ConversionError {
        fn from(value: String) -> Self {
            Self(value.into())
        }
    }
}
///`Listener`
///
/// <details><summary>JSON schema</summary>
///
/// ```json
///{
///  "type": "object",
///  "required": [
///    "port"
///  ],
///  "properties": {
///    "backlog": {
///      "type": "integer",
///      "maximum": 4096.0,
///      "exclusiveMinimum": 0.0
///    },
///    "big": {
///      "type": "integer",
///      "maximum": 4294967295.0,
///      "minimum": 0.0
///    },
///    "level": {
///      "type": "integer",
///      "maximum": 127.0,
///      "minimum": -128.0
///    },
///    "port": {
///      "type": "integer",
///      "maximum": 65535.0,
///      "minimum": 1.0
///    },
///    "workers": {
///      "type": [
///        "integer",
///        "null"
///      ],
///      "maximum": 1024.0,
///      "minimum": 1.0
///    }
///  }
///}
/// ```
/// </details>
#[derive(::serde::Deserialize, ::serde::Serialize, Clone, Debug)]
pub struct Listener {
    #[serde(default, skip_serializing_if = "::std::option::Option::is_none")]
    pub backlog: ::std::option::Option<::std::num::NonZeroU64>,
    #[serde(default, skip_serializing_if = "::std::option::Option::is_none")]
    pub big: ::std::option::Option<u32>,
    #[serde(default, skip_serializing_if = "::std::option::Option::is_none")]
    pub level: ::std::option::Option<i8>,
    pub port: ::std::num::NonZeroU64,
    #[serde(default, skip_serializing_if = "::std::option::Option::is_none")]
    pub workers: ::std::option::Option<::std::num::NonZeroU64>,
}
impl ::std::convert::From<&Listener> for Listener {
    fn from(value: &Listener) -> Self {
        value.clone()
    }
}
