/// Error types.
pub mod error {
    /// Error from a `TryFrom` or `FromStr` implementation.
    pub struct ConversionError(::std::borrow::Cow<'static, str>);
    impl ::std::error::Error for ConversionError {}
    impl ::std::fmt::Display for ConversionError {
        fn fmt(
            &self,
            f: &mut ::std::fmt::Formatter<'_>,
        ) -> Result<(), ::std::fmt::Error> {
            ::std::fmt::Display::fmt(&self.0, f)
        }
    }
    impl ::std::fmt::Debug for ConversionError {
        fn fmt(
            &self,
            f: &mut ::std::fmt::Formatter<'_>,
        ) -> Result<(), ::std::fmt::Error> {
            ::std::fmt::Debug::fmt(&self.0, f)
        }
    }
    impl From<&'static str> for ConversionError {
        fn from(value: &'static str) -> Self {
            Self(value.into())
        }
    }
    impl From<String> for ConversionError {
        fn from(value: String) -> Self {
            Self(value.into())
        }
    }
}
///`Account`
///
/// <details><summary>JSON schema</summary>
///
/// ```json
///{
///  "type": "object",
///  "required": [
///    "user-id"
///  ],
///  "properties": {
///    "display-name": {
///      "default": "",
///      "type": "string"
///    },
///    "isActive": {
///      "default": false,
///      "type": "boolean"
///    },
///    "maxSize": {
///      "type": "integer",
///      "format": "uint8"
///    },
///    "min-level": {
///      "default": 3,
///      "type": "integer"
///    },
///    "retry-count": {
///      "default": 0,
///      "type": "integer"
///    },
///    "user-id": {
///      "type": "string"
///    }
///  }
///}
/// ```
/// </details>
#[derive(::serde::Deserialize, ::serde::Serialize, Clone, Debug)]
pub struct Account {
    #[serde(rename = "display-name", default)]
    pub display_name: ::std::string::String,
    #[serde(rename = "isActive", default)]
    pub is_active: bool,
    #[serde(
        rename = "maxSize",
        default,
        skip_serializing_if = "::std::option::Option::is_none"
    )]
    pub max_size: ::std::option::Option<u8>,
    #[serde(rename = "min-level", default = "defaults::default_u64::<i64, 3>")]
    pub min_level: i64,
    #[serde(rename = "retry-count", default)]
    pub retry_count: i64,
    #[serde(rename = "user-id")]
    pub user_id: ::std::string::String,
}
impl ::std::convert::From<&Account> for Account {
    fn from(value: &Account) -> Self {
        value.clone()
    }
}
impl Account {
    pub fn builder() -> builder::Account {
        Default::default()
    }
}
/// Types for composing complex structures.
pub mod builder {
    #[derive(Clone, Debug)]
    pub struct Account {
        display_name: ::std::result::Result<
            ::std::string::String,
            ::std::string::String,
        >,
        is_active: ::std::result::Result<bool, ::std::string::String>,
        max_size: ::std::result::Result<
            ::std::option::Option<u8>,
            ::std::string::String,
        >,
        min_level: ::std::result::Result<i64, ::std::string::String>,
        retry_count: ::std::result::Result<i64, ::std::string::String>,
        user_id: ::std::result::Result<::std::string::String, ::std::string::String>,
    }
    impl ::std::default::Default for Account {
        fn default() -> Self {
            Self {
                display_name: Ok(Default::default()),
                is_active: Ok(Default::default()),
                max_size: Ok(Default::default()),
                min_level: Ok(super::defaults::default_u64::<i64, 3>()),
                retry_count: Ok(Default::default()),
                user_id: Err("no value supplied for user_id".to_string()),
            }
        }
    }
    impl Account {
        pub fn display_name<T>(mut self, value: T) -> Self
        where
            T: ::std::convert::TryInto<::std::string::String>,
            T::Error: ::std::fmt::Display,
        {
            self.display_name = value
                .try_into()
                .map_err(|e| {
                    format!("error converting supplied value for display_name: {}", e)
                });
            self
        }
        pub fn is_active<T>(mut self, value: T) -> Self
        where
            T: ::std::convert::TryInto<bool>,
            T::Error: ::std::fmt::Display,
        {
            self.is_active = value
                .try_into()
                .map_err(|e| {
                    format!("error converting supplied value for is_active: {}", e)
                });
            self
        }
        pub fn max_size<T>(mut self, value: T) -> Self
        where
            T: ::std::convert::TryInto<::std::option::Option<u8>>,
            T::Error: ::std::fmt::Display,
        {
            self.max_size = value
                .try_into()
                .map_err(|e| {
                    format!("error converting supplied value for max_size: {}", e)
                });
            self
        }
        pub fn min_level<T>(mut self, value: T) -> Self
        where
            T: ::std::convert::TryInto<i64>,
            T::Error: ::std::fmt::Display,
        {
            self.min_level = value
                .try_into()
                .map_err(|e| {
                    format!("error converting supplied value for min_level: {}", e)
                });
            self
        }
        pub fn retry_count<T>(mut self, value: T) -> Self
        where
            T: ::std::convert::TryInto<i64>,
            T::Error: ::std::fmt::Display,
        {
            self.retry_count = value
                .try_into()
                .map_err(|e| {
                    format!("error converting supplied value for retry_count: {}", e)
                });
            self
        }
        pub fn user_id<T>(mut self, value: T) -> Self
        where
            T: ::std::convert::TryInto<::std::string::String>,
            T::Error: ::std::fmt::Display,
        {
            self.user_id = value
                .try_into()
                .map_err(|e| {
                    format!("error converting supplied value for user_id: {}", e)
                });
            self
        }
    }
    impl ::std::convert::TryFrom<Account> for super::Account {
        type Error = super::error::ConversionError;
        fn try_from(
            value: Account,
        ) -> ::std::result::Result<Self, super::error::ConversionError> {
            Ok(Self {
                display_name: value.display_name?,
                is_active: value.is_active?,
                max_size: value.max_size?,
                min_level: value.min_level?,
                retry_count: value.retry_count?,
                user_id: value.user_id?,
            })
        }
    }
    impl ::std::convert::From<super::Account> for Account {
        fn from(value: super::Account) -> Self {
            Self {
                display_name: Ok(value.display_name),
                is_active: Ok(value.is_active),
                max_size: Ok(value.max_size),
                min_level: Ok(value.min_level),
                retry_count: Ok(value.retry_count),
                user_id: Ok(value.user_id),
            }
        }
    }
}
/// Generation of default values for serde.
pub mod defaults {
    pub(super) fn default_u64<T, const V: u64>() -> T
    where
        T: ::std::convert::TryFrom<u64>,
        <T as ::std::convert::TryFrom<u64>>::Error: ::std::fmt::Debug,
    {
        T::try_from(V).unwrap()
    }
}
