/// Error types.
pub mod error {
    /// Error from a `TryFrom` or `FromStr` implementation.
    pub struct ConversionError(::std::borrow::Cow<'static, str>);
    impl ::std::error::Error for ConversionError {}
    impl ::std::fmt::Display for ConversionError {
        fn fmt(
            &self,
            f: &mut ::std::fmt::Formatter<'_>,
        ) -> Result<(), ::std::fmt::Error> {
            ::std::fmt::Display::fmt(&self.0, f)
        }
    }
    impl ::std::fmt::Debug for ConversionError {
        fn fmt(
            &self,
            f: &mut ::std::fmt::Formatter<'_>,
        ) -> Result<(), ::std::fmt::Error> {
            ::std::fmt::Debug::fmt(&self.0, f)
        }
    }
    impl From<&'static str> for ConversionError {
        fn from(value: &'static str) -> Self {
            Self(value.into())
        }
    }
    impl From<String> for ConversionError {
        fn from(value: String) -> Self {
            Self(value.into())
        }
    }
}
///`RetryPolicy`
///
/// <details><summary>JSON schema</summary>
///
/// ```json
///{
///  "type": "object",
///  "required": [
///    "name"
///  ],
///  "properties": {
///    "backoff": {
///      "default": 7,
///      "type": [
///        "integer",
///        "null"
///      ]
///    },
///    "name": {
///      "type": "string"
///    },
///    "prefix": {
///      "default": "",
///      "type": [
///        "string",
///        "null"
///      ]
///    },
///    "retries": {
///      "default": 0,
///      "type": [
///        "integer",
///        "null"
///      ]
///    },
///    "verbose": {
///      "default": false,
///      "type": [
///        "boolean",
///        "null"
///      ]
///    }
///  }
///}
/// ```
/// </details>
#[derive(::serde::Deserialize, ::serde::Serialize, Clone, Debug)]
pub struct RetryPolicy {
    #[serde(default = "defaults::retry_policy_backoff")]
    pub backoff: ::std::option::Option<i64>,
    pub name: ::std::string::String,
    #[serde(default = "defaults::retry_policy_prefix")]
    pub prefix: ::std::option::Option<::std::string::String>,
    #[serde(default = "defaults::retry_policy_retries")]
    pub retries: ::std::option::Option<i64>,
    #[serde(default = "defaults::retry_policy_verbose")]
    pub verbose: ::std::option::Option<bool>,
}
impl ::std::convert::From<&RetryPolicy> for RetryPolicy {
    fn from(value: &RetryPolicy) -> Self {
        value.clone()
    }
}
/// Generation of default values for serde.
pub mod defaults {
    pub(super) fn retry_policy_backoff() -> ::std::option::Option<i64> {
        ::std::option::Option::Some(7_i64)
    }
    pub(super) fn retry_policy_prefix() -> ::std::option::Option<::std::string::String> {
        ::std::option::Option::Some("".to_string())
    }
    pub(super) fn retry_policy_retries() -> ::std::option::Option<i64> {
        ::std::option::Option::Some(0_i64)
    }
    pub(super) fn retry_policy_verbose() -> ::std::option::Option<bool> {
        ::std::option::Option::Some(false)
    }
}
