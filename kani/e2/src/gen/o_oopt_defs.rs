/// Error types.
pub mod error {
    /// Error from a `TryFrom` or `FromStr` implementation.
    pub struct ConversionError(::std::borrow::Cow<'static, str>);
    impl ::std::error::Error for ConversionError {}
    impl ::std::fmt::Display for ConversionError {
        fn fmt(
            &self,
            f: &mut ::std::fmt::Formatter<'_>,
        ) -> Result<(), ::std::fmt::Error> {
            ::std::fmt::Display::fmt(&self.0, f)
        }
    }
    impl ::std::fmt::Debug for ConversionError {
        fn fmt(
            &self,
            f: &mut ::std::fmt::Formatter<'_>,
        ) -> Result<(), ::std::fmt::Error> {
            ::std::fmt::Debug::fmt(&self.0, f)
        }
    }
    impl From<&'static str> for ConversionError {
        fn from(value: &'static str) -> Self {
            Self(value.into())
        }
    }
    impl From<String> for ConversionError {
        fn from(value: String) -> Self {
            Self(value.into())
        }
    }
}
///`OOpt`
///
/// <details><summary>JSON schema</summary>
///
/// ```json
///{
///  "title": "OOpt",
///  "type": "object",
///  "required": [
///    "name"
///  ],
///  "properties": {
///    "a": {
///      "type": [
///        "integer",
///        "null"
///      ],
///      "format": "uint16",
///      "minimum": 0.0
///    },
///    "b": {
///      "type": [
///        "boolean",
///        "null"
///      ]
///    },
///    "name": {
///      "type": "string"
///    }
///  }
///}
/// ```
/// </details>
#[derive(::serde::Deserialize, ::serde::Serialize, Clone, Debug)]
pub struct OOpt {
    #[serde(default, skip_serializing_if = "::std::option::Option::is_none")]
    pub a: ::std::option::Option<u16>,
    #[serde(default, skip_serializing_if = "::std::option::Option::is_none")]
    pub b: ::std::option::Option<bool>,
    pub name: ::std::string::String,
}
impl ::std::convert::From<&OOpt> for OOpt {
    fn from(value: &OOpt) -> Self {
        value.clone()
    }
}
