/// Error types.
pub mod error {
    /// Error from a `TryFrom` or `FromStr` implementation.
    pub struct ConversionError(::std::borrow::Cow<'static, str>);
    impl ::std::error::Error for ConversionError {}
    impl ::std::fmt::Display for ConversionError {
        fn fmt(
            &self,
            f: &mut ::std::fmt::Formatter<'_>,
        ) -> Result<(), ::std::fmt::Error> {
            ::std::fmt::Display::fmt(&self.0, f)
        }
    }
    impl ::std::fmt::Debug for ConversionError {
        fn fmt(
            &self,
            f: &mut ::std::fmt::Formatter<'_>,
        ) -> Result<(), ::std::fmt::Error> {
            ::std::fmt::Debug::fmt(&self.0, f)
        }
    }
    impl From<&'static str> for ConversionError {
        fn from(value: &'static str) -> Self {
            Self(value.into())
        }
    }
    impl From<String> for ConversionError {
        fn from(value: String) -> Self {
            Self(value.into())
        }
    }
}
///`OBox`
///
/// <details><summary>JSON schema</summary>
///
/// ```json
///{
///  "title": "OBox",
///  "type": "object",
///  "required": [
///    "b",
///    "n"
///  ],
///  "properties": {
///    "b": {
///      "type": "integer",
///      "format": "int32"
///    },
///    "n": {
///      "type": "integer",
///      "format": "uint16",
///      "minimum": 1.0
///    }
///  }
///}
/// ```
/// </details>
#[derive(::serde::Deserialize, ::serde::Serialize, Clone, Debug)]
pub struct OBox {
    pub b: i32,
    pub n: ::std::num::NonZeroU16,
}
impl ::std::convert::From<&OBox> for OBox {
    fn from(value: &OBox) -> Self {
        value.clone()
    }
}
