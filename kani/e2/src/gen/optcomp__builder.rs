/// Error types.
pub mod error {
    /// Error from a `TryFrom` or `FromStr` implementation.
    pub struct ConversionError(::std::borrow::Cow<'static, str>);
    impl ::std::error::Error for ConversionError {}
    impl ::std::fmt::Display for ConversionError {
        fn fmt(
            &self,
            f: &mut ::std::fmt::Formatter<'_>,
        ) -> Result<(), ::std::fmt::Error> {
            ::std::fmt::Display::fmt(&self.0, f)
        }
    }
    impl ::std::fmt::Debug for ConversionError {
        fn fmt(
            &self,
            f: &mut ::std::fmt::Formatter<'_>,
        ) -> Result<(), ::std::fmt::Error> {
            ::std::fmt::Debug::fmt(&self.0, f)
        }
    }
    impl From<&'static str> for ConversionError {
        fn from(value: &'static str) -> Self {
            Self(value.into())
        }
    }
    impl From<String> for ConversionError {
        fn from(value: String) -> Self {
            Self(value.into())
        }
    }
}
///`Record`
///
/// <details><summary>JSON schema</summary>
///
/// ```json
///{
///  "type": "object",
///  "required": [
///    "id"
///  ],
///  "properties": {
///    "id": {
///      "type": "integer",
///      "format": "uint8"
///    },
///    "list": {
///      "type": "array",
///      "items": {
///        "type": "integer",
///        "format": "uint8"
///      }
///    },
///    "pair": {
///      "oneOf": [
///        {
///          "type": "array",
///          "items": [
///            {
///              "type": "boolean"
///            },
///            {
///              "type": "integer",
///              "maximum": 20.0,
///              "minimum": 10.0
///            }
///          ],
///          "maxItems": 2,
///          "minItems": 2
///        },
///        {
///          "type": "null"
///        }
///      ]
///    },
///    "span": {
///      "type": "array",
///      "items": [
///        {
///          "type": "integer"
///        },
///        {
///          "type": "string"
///        }
///      ],
///      "maxItems": 2,
///      "minItems": 2
///    },
///    "tags": {
///      "type": [
///        "array",
///        "null"
///      ],
///      "items": {
///        "type": "string"
///      }
///    }
///  }
///}
/// ```
/// </details>
#[derive(::serde::Deserialize, ::serde::Serialize, Clone, Debug)]
pub struct Record {
    pub id: u8,
    #[serde(default, skip_serializing_if = "::std::vec::Vec::is_empty")]
    pub list: ::std::vec::Vec<u8>,
    #[serde(default, skip_serializing_if = "::std::option::Option::is_none")]
    pub pair: ::std::option::Option<(bool, i64)>,
    #[serde(default, skip_serializing_if = "::std::option::Option::is_none")]
    pub span: ::std::option::Option<(i64, ::std::string::String)>,
    #[serde(default, skip_serializing_if = "::std::option::Option::is_none")]
    pub tags: ::std::option::Option<::std::vec::Vec<::std::string::String>>,
}
impl ::std::convert::From<&Record> for Record {
    fn from(value: &Record) -> Self {
        value.clone()
    }
}
impl Record {
    pub fn builder() -> builder::Record {
        Default::default()
    }
}
/// Types for composing complex structures.
pub mod builder {
    #[derive(Clone, Debug)]
    pub struct Record {
        id: ::std::result::Result<u8, ::std::string::String>,
        list: ::std::result::Result<::std::vec::Vec<u8>, ::std::string::String>,
        pair: ::std::result::Result<
            ::std::option::Option<(bool, i64)>,
            ::std::string::String,
        >,
        span: ::std::result::Result<
            ::std::option::Option<(i64, ::std::string::String)>,
            ::std::string::String,
        >,
        tags: ::std::result::Result<
            ::std::option::Option<::std::vec::Vec<::std::string::String>>,
            ::std::string::String,
        >,
    }
    impl ::std::default::Default for Record {
        fn default() -> Self {
            Self {
                id: Err("no value supplied for id".to_string()),
                list: Ok(Default::default()),
                pair: Ok(Default::default()),
                span: Ok(Default::default()),
                tags: Ok(Default::default()),
            }
        }
    }
    impl Record {
        pub fn id<T>(mut self, value: T) -> Self
        where
            T: ::std::convert::TryInto<u8>,
            T::Error: ::std::fmt::Display,
        {
            self.id = value
                .try_into()
                .map_err(|e| format!("error converting supplied value for id: {}", e));
            self
        }
        pub fn list<T>(mut self, value: T) -> Self
        where
            T: ::std::convert::TryInto<::std::vec::Vec<u8>>,
            T::Error: ::std::fmt::Display,
        {
            self.list = value
                .try_into()
                .map_err(|e| format!("error converting supplied value for list: {}", e));
            self
        }
        pub fn pair<T>(mut self, value: T) -> Self
        where
            T: ::std::convert::TryInto<::std::option::Option<(bool, i64)>>,
            T::Error: ::std::fmt::Display,
        {
            self.pair = value
                .try_into()
                .map_err(|e| format!("error converting supplied value for pair: {}", e));
            self
        }
        pub fn span<T>(mut self, value: T) -> Self
        where
            T: ::std::convert::TryInto<
                ::std::option::Option<(i64, ::std::string::String)>,
            >,
            T::Error: ::std::fmt::Display,
        {
            self.span = value
                .try_into()
                .map_err(|e| format!("error converting supplied value for span: {}", e));
            self
        }
        pub fn tags<T>(mut self, value: T) -> Self
        where
            T: ::std::convert::TryInto<
                ::std::option::Option<::std::vec::Vec<::std::string::String>>,
            >,
            T::Error: ::std::fmt::Display,
        {
            self.tags = value
                .try_into()
                .map_err(|e| format!("error converting supplied value for tags: {}", e));
            self
        }
    }
    impl ::std::convert::TryFrom<Record> for super::Record {
        type Error = super::error::ConversionError;
        fn try_from(
            value: Record,
        ) -> ::std::result::Result<Self, super::error::ConversionError> {
            Ok(Self {
                id: value.id?,
                list: value.list?,
                pair: value.pair?,
                span: value.span?,
                tags: value.tags?,
            })
        }
    }
    impl ::std::convert::From<super::Record> for Record {
        fn from(value: super::Record) -> Self {
            Self {
                id: Ok(value.id),
                list: Ok(value.list),
                pair: Ok(value.pair),
                span: Ok(value.span),
                tags: Ok(value.tags),
            }
        }
    }
}
