/// Error types.
pub mod error {
    /// Error from a `TryFrom` or `FromStr` implementation.
    pub struct ConversionError(::std::borrow::Cow<'static, str>);
    impl ::std::error::Error for ConversionError {}
    impl ::std::fmt::Display for ConversionError {
        fn fmt(
            &self,
            f: &mut ::std::fmt::Formatter<'_>,
        ) -> Result<(), ::std::fmt::Error> {
            ::std::fmt::Display::fmt(&self.0, f)
        }
    }
    impl ::std::fmt::Debug for ConversionError {
        fn fmt(
            &self,
            f: &mut ::std::fmt::Formatter<'_>,
        ) -> Result<(), ::std::fmt::Error> {
            ::std::fmt::Debug::fmt(&self.0, f)
        }
    }
    impl From<&'static str> for ConversionError {
        fn from(value: &'static str) -> Self {
            Self(value.into())
        }
    }
    impl From<String> for ConversionError {
        fn from(value: String) -> Self {
            Self(value.into())
        }
    }
}
///`Event`
///
/// <details><summary>JSON schema</summary>
///
/// ```json
///{
///  "oneOf": [
///    {
///      "type": "string",
///      "enum": [
///        "noop",
///        "shut-down"
///      ]
///    },
///    {
///      "type": "object",
///      "required": [
///        "created"
///      ],
///      "properties": {
///        "created": {
///          "type": "object",
///          "required": [
///            "id"
///          ],
///          "properties": {
///            "flag": {
///              "type": "boolean"
///            },
///            "id": {
///              "type": "integer",
///              "format": "uint8"
///            }
///          },
///          "additionalProperties": false
///        }
///      },
///      "additionalProperties": false
///    },
///    {
///      "type": "object",
///      "required": [
///        "moved"
///      ],
///      "properties": {
///        "moved": {
///          "type": "object",
///          "required": [
///            "to"
///          ],
///          "properties": {
///            "to": {
///              "type": "integer",
///              "format": "int16"
///            }
///          },
///          "additionalProperties": false
///        }
///      },
///      "additionalProperties": false
///    }
///  ]
///}
/// ```
/// </details>
#[derive(::serde::Deserialize, ::serde::Serialize, Clone, Debug)]
#[serde(deny_unknown_fields)]
pub enum Event {
    #[serde(rename = "noop")]
    Noop,
    #[serde(rename = "shut-down")]
    ShutDown,
    #[serde(rename = "created")]
    Created {
        #[serde(default, skip_serializing_if = "::std::option::Option::is_none")]
        flag: ::std::option::Option<bool>,
        id: u8,
    },
    #[serde(rename = "moved")]
    Moved { to: i16 },
}
impl ::std::convert::From<&Self> for Event {
    fn from(value: &Event) -> Self {
        value.clone()
    }
}
