/// Error types.
pub mod error {
    /// Error from a `TryFrom` or `FromStr` implementation.
    pub struct ConversionError(::std::borrow::Cow<'static, str>);
    impl ::std::error::Error for ConversionError {}
    impl ::std::fmt::Display for ConversionError {
        fn fmt(
            &self,
            f: &mut ::std::fmt::Formatter<'_>,
        ) -> Result<(), ::std::fmt::Error> {
            ::std::fmt::Display::fmt(&self.0, f)
        }
    }
    impl ::std::fmt::Debug for ConversionError {
        fn fmt(
            &self,
            f: &mut ::std::fmt::Formatter<'_>,
        ) -> Result<(), ::std::fmt::Error> {
            ::std::fmt::Debug::fmt(&self.0, f)
        }
    }
    impl From<&'static str> for ConversionError {
        fn from(value: &'static str) -> Self {
            Self(value.into())
        }
    }
    impl From<String> for ConversionError {
        fn from(value: String) -> Self {
            Self(value.into())
        }
    }
}
///`Wide`
///
/// <details><summary>JSON schema</summary>
///
/// ```json
///{
///  "type": "integer",
///  "enum": [
///    -9223372036854775808,
///    0,
///    9223372036854775807
///  ]
///}
/// ```
/// </details>
#[derive(::serde::Serialize, Clone, Debug)]
#[serde(transparent)]
pub struct Wide(i64);
impl ::std::ops::Deref for Wide {
    type Target = i64;
    fn deref(&self) -> &i64 {
        &self.0
    }
}
impl ::std::convert::From<Wide> for i64 {
    fn from(value: Wide) -> Self {
        value.0
    }
}
impl ::std::convert::From<&Wide> for Wide {
    fn from(value: &Wide) -> Self {
        value.clone()
    }
}
impl ::std::convert::TryFrom<i64> for Wide {
    type Error = self::error::ConversionError;
    fn try_from(
        value: i64,
    ) -> ::std::result::Result<Self, self::error::ConversionError> {
        if ![-9223372036854775808_i64, 0_i64, 9223372036854775807_i64].contains(&value) {
            Err("invalid value".into())
        } else {
            Ok(Self(value))
        }
    }
}
impl<'de> ::serde::Deserialize<'de> for Wide {
    fn deserialize<D>(deserializer: D) -> ::std::result::Result<Self, D::Error>
    where
        D: ::serde::Deserializer<'de>,
    {
        Self::try_from(<i64>::deserialize(deserializer)?)
            .map_err(|e| { <D::Error as ::serde::de::Error>::custom(e.to_string()) })
    }
}
