/// Error types.
pub mod error {
    /// Error from a `TryFrom` or `FromStr` implementation.
    pub struct ConversionError(::std::borrow::Cow<'static, str>);
    impl ::std::error::Error for ConversionError {}
    impl ::std::fmt::Display for ConversionError {
        fn fmt(
            &self,
            f: &mut ::std::fmt::Formatter<'_>,
        ) -> Result<(), ::std::fmt::Error> {
            ::std::fmt::Display::fmt(&self.0, f)
        }
    }
    impl ::std::fmt::Debug for ConversionError {
        fn fmt(
            &self,
            f: &mut ::std::fmt::Formatter<'_>,
        ) -> Result<(), ::std::fmt::Error> {
            ::std::fmt::Debug::fmt(&self.0, f)
        }
    }
    impl From<&'static str> for ConversionError {
        fn from(value: &'static str) -> Self {
            Self(value.into())
        }
    }
    impl From<String> for ConversionError {
        fn from(value: String) -> Self {
            Self(value.into())
        }
    }
}
///`G`
///
/// <details><summary>JSON schema</summary>
///
/// ```json
///{
///  "type": "object",
///  "required": [
///    "a-req"
///  ],
///  "properties": {
///    "a-req": {
///      "type": "boolean"
///    },
///    "bOpt": {
///      "type": "boolean"
///    },
///    "c-def0": {
///      "default": false,
///      "type": "boolean"
///    },
///    "dDef": {
///      "default": true,
///      "type": "boolean"
///    },
///    "e-null": {
///      "type": [
///        "boolean",
///        "null"
///      ]
///    },
///    "fNullDef": {
///      "default": true,
///      "type": [
///        "boolean",
///        "null"
///      ]
///    }
///  }
///}
/// ```
/// </details>
#[derive(::serde::Deserialize, ::serde::Serialize, Clone, Debug)]
pub struct G {
    #[serde(rename = "a-req")]
    pub a_req: bool,
    #[serde(
        rename = "bOpt",
        default,
        skip_serializing_if = "::std::option::Option::is_none"
    )]
    pub b_opt: ::std::option::Option<bool>,
    #[serde(rename = "c-def0", default)]
    pub c_def0: bool,
    #[serde(rename = "dDef", default = "defaults::default_bool::<true>")]
    pub d_def: bool,
    #[serde(
        rename = "e-null",
        default,
        skip_serializing_if = "::std::option::Option::is_none"
    )]
    pub e_null: ::std::option::Option<bool>,
    #[serde(rename = "fNullDef", default = "defaults::g_f_null_def")]
    pub f_null_def: ::std::option::Option<bool>,
}
impl ::std::convert::From<&G> for G {
    fn from(value: &G) -> Self {
        value.clone()
    }
}
impl G {
    pub fn builder() -> builder::G {
        Default::default()
    }
}
/// Types for composing complex structures.
pub mod builder {
    #[derive(Clone, Debug)]
    pub struct G {
        a_req: ::std::result::Result<bool, ::std::string::String>,
        b_opt: ::std::result::Result<::std::option::Option<bool>, ::std::string::String>,
        c_def0: ::std::result::Result<bool, ::std::string::String>,
        d_def: ::std::result::Result<bool, ::std::string::String>,
        e_null: ::std::result::Result<
            ::std::option::Option<bool>,
            ::std::string::String,
        >,
        f_null_def: ::std::result::Result<
            ::std::option::Option<bool>,
            ::std::string::String,
        >,
    }
    impl ::std::default::Default for G {
        fn default() -> Self {
            Self {
                a_req: Err("no value supplied for a_req".to_string()),
                b_opt: Ok(Default::default()),
                c_def0: Ok(Default::default()),
                d_def: Ok(super::defaults::default_bool::<true>()),
                e_null: Ok(Default::default()),
                f_null_def: Ok(super::defaults::g_f_null_def()),
            }
        }
    }
    impl G {
        pub fn a_req<T>(mut self, value: T) -> Self
        where
            T: ::std::convert::TryInto<bool>,
            T::Error: ::std::fmt::Display,
        {
            self.a_req = value
                .try_into()
                .map_err(|e| {
                    format!("error converting supplied value for a_req: {}", e)
                });
            self
        }
        pub fn b_opt<T>(mut self, value: T) -> Self
        where
            T: ::std::convert::TryInto<::std::option::Option<bool>>,
            T::Error: ::std::fmt::Display,
        {
            self.b_opt = value
                .try_into()
                .map_err(|e| {
                    format!("error converting supplied value for b_opt: {}", e)
                });
            self
        }
        pub fn c_def0<T>(mut self, value: T) -> Self
        where
            T: ::std::convert::TryInto<bool>,
            T::Error: ::std::fmt::Display,
        {
            self.c_def0 = value
                .try_into()
                .map_err(|e| {
                    format!("error converting supplied value for c_def0: {}", e)
                });
            self
        }
        pub fn d_def<T>(mut self, value: T) -> Self
        where
            T: ::std::convert::TryInto<bool>,
            T::Error: ::std::fmt::Display,
        {
            self.d_def = value
                .try_into()
                .map_err(|e| {
                    format!("error converting supplied value for d_def: {}", e)
                });
            self
        }
        pub fn e_null<T>(mut self, value: T) -> Self
        where
            T: ::std::convert::TryInto<::std::option::Option<bool>>,
            T::Error: ::std::fmt::Display,
        {
            self.e_null = value
                .try_into()
                .map_err(|e| {
                    format!("error converting supplied value for e_null: {}", e)
                });
            self
        }
        pub fn f_null_def<T>(mut self, value: T) -> Self
        where
            T: ::std::convert::TryInto<::std::option::Option<bool>>,
            T::Error: ::std::fmt::Display,
        {
            self.f_null_def = value
                .try_into()
                .map_err(|e| {
                    format!("error converting supplied value for f_null_def: {}", e)
                });
            self
        }
    }
    impl ::std::convert::TryFrom<G> for super::G {
        type Error = super::error::ConversionError;
        fn try_from(
            value: G,
        ) -> ::std::result::Result<Self, super::error::ConversionError> {
            Ok(Self {
                a_req: value.a_req?,
                b_opt: value.b_opt?,
                c_def0: value.c_def0?,
                d_def: value.d_def?,
                e_null: value.e_null?,
                f_null_def: value.f_null_def?,
            })
        }
    }
    impl ::std::convert::From<super::G> for G {
        fn from(value: super::G) -> Self {
            Self {
                a_req: Ok(value.a_req),
                b_opt: Ok(value.b_opt),
                c_def0: Ok(value.c_def0),
                d_def: Ok(value.d_def),
                e_null: Ok(value.e_null),
                f_null_def: Ok(value.f_null_def),
            }
        }
    }
}
/// Generation of default values for serde.
pub mod defaults {
    pub(super) fn default_bool<const V: bool>() -> bool {
        V
    }
    pub(super) fn g_f_null_def() -> ::std::option::Option<bool> {
        ::std::option::Option::Some(true)
    }
}
