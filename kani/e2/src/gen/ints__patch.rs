/// Error types.
pub mod error {
    /// Error from a `TryFrom` or `FromStr` implementation.
    pub struct ConversionError(::std::borrow::Cow<'static, str>);
    impl ::std::error::Error for ConversionError {}
    impl ::std::fmt::Display for ConversionError {
        fn fmt(
            &self,
            f: &mut ::std::fmt::Formatter<'_>,
        ) -> Result<(), ::std::fmt::Error> {
            ::std::fmt::Display::fmt(&self.0, f)
        }
    }
    impl ::std::fmt::Debug for ConversionError {
        fn fmt(
            &self,
            f: &mut ::std::fmt::Formatter<'_>,
        ) -> Result<(), ::std::fmt::Error> {
            ::std::fmt::Debug::fmt(&self.0, f)
        }
    }
    impl From<&'static str> for ConversionError {
        fn from(value: &'static str) -> Self {
            Self(value.into())
        }
    }
    impl From<String> for ConversionError {
        fn from(value: String) -> Self {
            Self(value.into())
        }
    }
}
///`Ints`
///
/// <details><summary>JSON schema</summary>
///
/// ```json
///{
///  "type": "object",
///  "required": [
///    "a",
///    "b",
///    "c",
///    "d"
///  ],
///  "properties": {
///    "a": {
///      "type": "integer",
///      "format": "int8"
///    },
///    "b": {
///      "type": "integer",
///      "format": "uint16"
///    },
///    "c": {
///      "type": "integer",
///      "format": "int64"
///    },
///    "d": {
///      "type": "integer",
///      "format": "uint64"
///    }
///  }
///}
/// ```
/// </details>
#[derive(::serde::Deserialize, ::serde::Serialize, Clone, Debug)]
pub struct Ints {
    pub a: i8,
    pub b: u16,
    pub c: i64,
    pub d: u64,
}
impl ::std::convert::From<&Ints> for Ints {
    fn from(value: &Ints) -> Self {
        value.clone()
    }
}
///`Renamed`
///
/// <details><summary>JSON schema</summary>
///
/// ```json
///{
///  "type": "object",
///  "properties": {
///    "q": {
///      "type": "boolean"
///    }
///  }
///}
/// ```
/// </details>
#[derive(::serde::Deserialize, ::serde::Serialize, Clone, Debug, PartialEq)]
pub struct Renamed {
    #[serde(default, skip_serializing_if = "::std::option::Option::is_none")]
    pub q: ::std::option::Option<bool>,
}
impl ::std::convert::From<&Renamed> for Renamed {
    fn from(value: &Renamed) -> Self {
        value.clone()
    }
}
impl ::std::default::Default for Renamed {
    fn default() -> Self {
        Self { q: Default::default() }
    }
}
