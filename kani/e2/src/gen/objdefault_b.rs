/// Error types.
pub mod error {
    /// Error from a `TryFrom` or `FromStr` implementation.
    pub struct ConversionError(::std::borrow::Cow<'static, str>);
    impl ::std::error::Error for ConversionError {}
    impl ::std::fmt::Display for ConversionError {
        fn fmt(
            &self,
            f: &mut ::std::fmt::Formatter<'_>,
        ) -> Result<(), ::std::fmt::Error> {
            ::std::fmt::Display::fmt(&self.0, f)
        }
    }
    impl ::std::fmt::Debug for ConversionError {
        fn fmt(
            &self,
            f: &mut ::std::fmt::Formatter<'_>,
        ) -> Result<(), ::std::fmt::Error> {
            ::std::fmt::Debug::fmt(&self.0, f)
        }
    }
    impl From<&'static str> for ConversionError {
        fn from(value: &'static str) -> Self {
            Self(value.into())
        }
    }
    impl From<String> for ConversionError {
        fn from(value: String) -> Self {
            Self(value.into())
        }
    }
}
///`Widget`
///
/// <details><summary>JSON schema</summary>
///
/// ```json
///{
///  "title": "Widget",
///  "default": {
///    "display-name": "anon",
///    "id": 7,
///    "type": "gadget"
///  },
///  "type": "object",
///  "required": [
///    "display-name",
///    "id",
///    "type"
///  ],
///  "properties": {
///    "display-name": {
///      "type": "string"
///    },
///    "enabled": {
///      "default": true,
///      "type": "boolean"
///    },
///    "id": {
///      "type": "integer",
///      "format": "uint32"
///    },
///    "retryCount": {
///      "default": 3,
///      "type": "integer",
///      "format": "uint8"
///    },
///    "type": {
///      "type": [
///        "string",
///        "null"
///      ]
///    }
///  }
///}
/// ```
/// </details>
#[derive(::serde::Deserialize, ::serde::Serialize, Clone, Debug)]
pub struct Widget {
    #[serde(rename = "display-name")]
    pub display_name: ::std::string::String,
    #[serde(default = "defaults::default_bool::<true>")]
    pub enabled: bool,
    pub id: u32,
    #[serde(rename = "retryCount", default = "defaults::default_u64::<u8, 3>")]
    pub retry_count: u8,
    #[serde(rename = "type")]
    pub type_: ::std::option::Option<::std::string::String>,
}
impl ::std::convert::From<&Widget> for Widget {
    fn from(value: &Widget) -> Self {
        value.clone()
    }
}
impl ::std::default::Default for Widget {
    fn default() -> Self {
        Widget {
            display_name: "anon".to_string(),
            enabled: Default::default(),
            id: 7_u32,
            retry_count: Default::default(),
            type_: ::std::option::Option::Some("gadget".to_string()),
        }
    }
}
impl Widget {
    pub fn builder() -> builder::Widget {
        Default::default()
    }
}
/// Types for composing complex structures.
pub mod builder {
    #[derive(Clone, Debug)]
    pub struct Widget {
        display_name: ::std::result::Result<
            ::std::string::String,
            ::std::string::String,
        >,
        enabled: ::std::result::Result<bool, ::std::string::String>,
        id: ::std::result::Result<u32, ::std::string::String>,
        retry_count: ::std::result::Result<u8, ::std::string::String>,
        type_: ::std::result::Result<
            ::std::option::Option<::std::string::String>,
            ::std::string::String,
        >,
    }
    impl ::std::default::Default for Widget {
        fn default() -> Self {
            Self {
                display_name: Err("no value supplied for display_name".to_string()),
                enabled: Ok(super::defaults::default_bool::<true>()),
                id: Err("no value supplied for id".to_string()),
                retry_count: Ok(super::defaults::default_u64::<u8, 3>()),
                type_: Err("no value supplied for type_".to_string()),
            }
        }
    }
    impl Widget {
        pub fn display_name<T>(mut self, value: T) -> Self
        where
            T: ::std::convert::TryInto<::std::string::String>,
            T::Error: ::std::fmt::Display,
        {
            self.display_name = value
                .try_into()
                .map_err(|e| {
                    format!("error converting supplied value for display_name: {}", e)
                });
            self
        }
        pub fn enabled<T>(mut self, value: T) -> Self
        where
            T: ::std::convert::TryInto<bool>,
            T::Error: ::std::fmt::Display,
        {
            self.enabled = value
                .try_into()
                .map_err(|e| {
                    format!("error converting supplied value for enabled: {}", e)
                });
            self
        }
        pub fn id<T>(mut self, value: T) -> Self
        where
            T: ::std::convert::TryInto<u32>,
            T::Error: ::std::fmt::Display,
        {
            self.id = value
                .try_into()
                .map_err(|e| format!("error converting supplied value for id: {}", e));
            self
        }
        pub fn retry_count<T>(mut self, value: T) -> Self
        where
            T: ::std::convert::TryInto<u8>,
            T::Error: ::std::fmt::Display,
        {
            self.retry_count = value
                .try_into()
                .map_err(|e| {
                    format!("error converting supplied value for retry_count: {}", e)
                });
            self
        }
        pub fn type_<T>(mut self, value: T) -> Self
        where
            T: ::std::convert::TryInto<::std::option::Option<::std::string::String>>,
            T::Error: ::std::fmt::Display,
        {
            self.type_ = value
                .try_into()
                .map_err(|e| {
                    format!("error converting supplied value for type_: {}", e)
                });
            self
        }
    }
    impl ::std::convert::TryFrom<Widget> for super::Widget {
        type Error = super::error::ConversionError;
        fn try_from(
            value: Widget,
        ) -> ::std::result::Result<Self, super::error::ConversionError> {
            Ok(Self {
                display_name: value.display_name?,
                enabled: value.enabled?,
                id: value.id?,
                retry_count: value.retry_count?,
                type_: value.type_?,
            })
        }
    }
    impl ::std::convert::From<super::Widget> for Widget {
        fn from(value: super::Widget) -> Self {
            Self {
                display_name: Ok(value.display_name),
                enabled: Ok(value.enabled),
                id: Ok(value.id),
                retry_count: Ok(value.retry_count),
                type_: Ok(value.type_),
            }
        }
    }
}
/// Generation of default values for serde.
pub mod defaults {
    pub(super) fn default_bool<const V: bool>() -> bool {
        V
    }
    pub(super) fn default_u64<T, const V: u64>() -> T
    where
        T: ::std::convert::TryFrom<u64>,
        <T as ::std::convert::TryFrom<u64>>::Error: ::std::fmt::Debug,
    {
        T::try_from(V).unwrap()
    }
}
