/// Error types.
pub mod error {
    /// Error from a `TryFrom` or `FromStr` implementation.
    pub struct ConversionError(::std::borrow::Cow<'static, str>);
    impl ::std::error::Error for ConversionError {}
    impl ::std::fmt::Display for ConversionError {
        fn fmt(
            &self,
            f: &mut ::std::fmt::Formatter<'_>,
        ) -> Result<(), ::std::fmt::Error> {
            ::std::fmt::Display::fmt(&self.0, f)
        }
    }
    impl ::std::fmt::Debug for ConversionError {
        fn fmt(
            &self,
            f: &mut ::std::fmt::Formatter<'_>,
        ) -> Result<(), ::std::fmt::Error> {
            ::std::fmt::Debug::fmt(&self.0, f)
        }
    }
    impl From<&'static str> for ConversionError {
        fn from(value: &'static str) -> Self {
            Self(value.into())
        }
    }
    impl From<String> for ConversionError {
        fn from(value: String) -> Self {
            Self(value.into())
        }
    }
}
///`A`
///
/// <details><summary>JSON schema</summary>
///
/// ```json
///{
///  "type": "object",
///  "required": [
///    "v"
///  ],
///  "properties": {
///    "v": {
///      "type": "array",
///      "items": {
///        "type": "integer",
///        "format": "uint8"
///      }
///    }
///  }
///}
/// ```
/// </details>
#[derive(::serde::Deserialize, ::serde::Serialize, Clone, Debug)]
pub struct A {
    pub v: ::std::vec::Vec<u8>,
}
impl ::std::convert::From<&A> for A {
    fn from(value: &A) -> Self {
        value.clone()
    }
}
impl A {
    pub fn builder() -> builder::A {
        Default::default()
    }
}
/// Types for composing complex structures.
pub mod builder {
    #[derive(Clone, Debug)]
    pub struct A {
        v: ::std::result::Result<::std::vec::Vec<u8>, ::std::string::String>,
    }
    impl ::std::default::Default for A {
        fn default() -> Self {
            Self {
                v: Err("no value supplied for v".to_string()),
            }
        }
    }
    impl A {
        pub fn v<T>(mut self, value: T) -> Self
        where
            T: ::std::convert::TryInto<::std::vec::Vec<u8>>,
            T::Error: ::std::fmt::Display,
        {
            self.v = value
                .try_into()
                .map_err(|e| format!("error converting supplied value for v: {}", e));
            self
        }
    }
    impl ::std::convert::TryFrom<A> for super::A {
        type Error = super::error::ConversionError;
        fn try_from(
            value: A,
        ) -> ::std::result::Result<Self, super::error::ConversionError> {
            Ok(Self { v: value.v? })
        }
    }
    impl ::std::convert::From<super::A> for A {
        fn from(value: super::A) -> Self {
            Self { v: Ok(value.v) }
        }
    }
}
