/// Error types.
pub mod error {
    /// Error from a `TryFrom` or `FromStr` implementation.
    pub struct ConversionError(::std::borrow::Cow<'static, str>);
    impl ::std::error::Error for ConversionError {}
    impl ::std::fmt::Display for ConversionError {
        fn fmt(
            &self,
            f: &mut ::std::fmt::Formatter<'_>,
        ) -> Result<(), ::std::fmt::Error> {
            ::std::fmt::Display::fmt(&self.0, f)
        }
    }
    impl ::std::fmt::Debug for ConversionError {
        fn fmt(
            &self,
            f: &mut ::std::fmt::Formatter<'_>,
        ) -> Result<(), ::std::fmt::Error> {
            ::std::fmt::Debug::fmt(&self.0, f)
        }
    }
    impl From<&'static str> for ConversionError {
        fn from(value: &'static str) -> Self {
            Self(value.into())
        }
    }
    impl From<String> for ConversionError {
        fn from(value: String) -> Self {
            Self(value.into())
        }
    }
}
///`Bounds`
///
/// <details><summary>JSON schema</summary>
///
/// ```json
///{
///  "type": "object",
///  "required": [
///    "both",
///    "hi",
///    "lo",
///    "nz"
///  ],
///  "properties": {
///    "both": {
///      "type": "integer",
///      "maximum": 255.0,
///      "minimum": 0.0
///    },
///    "hi": {
///      "type": "integer",
///      "maximum": 255.0
///    },
///    "lo": {
///      "type": "integer",
///      "minimum": 0.0
///    },
///    "nz": {
///      "type": "integer",
///      "format": "uint32",
///      "minimum": 1.0
///    }
///  }
///}
/// ```
/// </details>
#[derive(::serde::Deserialize, ::serde::Serialize, Clone, Debug)]
pub struct Bounds {
    pub both: u8,
    pub hi: i64,
    pub lo: u64,
    pub nz: ::std::num::NonZeroU32,
}
impl ::std::convert::From<&Bounds> for Bounds {
    fn from(value: &Bounds) -> Self {
        value.clone()
    }
}
