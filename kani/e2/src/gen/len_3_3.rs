/// Error types.
pub mod error {
    /// Error from a `TryFrom` or `FromStr` implementation.
    pub struct ConversionError(::std::borrow::Cow<'static, str>);
    impl ::std::error::Error for ConversionError {}
    impl ::std::fmt::Display for ConversionError {
        fn fmt(
            &self,
            f: &mut ::std::fmt::Formatter<'_>,
        ) -> Result<(), ::std::fmt::Error> {
            ::std::fmt::Display::fmt(&self.0, f)
        }
    }
    impl ::std::fmt::Debug for ConversionError {
        fn fmt(
            &self,
            f: &mut ::std::fmt::Formatter<'_>,
        ) -> Result<(), ::std::fmt::Error> {
            ::std::fmt::Debug::fmt(&self.0, f)
        }
    }
    impl From<&'static str> for ConversionError {
        fn from(value: &'static str) -> Self {
            Self(value.into())
        }
    }
    impl From<String> for ConversionError {
        fn from(value: String) -> Self {
            Self(value.into())
        }
    }
}
///`S`
///
/// <details><summary>JSON schema</summary>
///
/// ```json
///{
///  "type": "string",
///  "maxLength": 3,
///  "minLength": 3
///}
/// ```
/// </details>
#[derive(::serde::Serialize, Clone, Debug, Eq, Hash, Ord, PartialEq, PartialOrd)]
#[serde(transparent)]
pub struct S(::std::string::String);
impl ::std::ops::Deref for S {
    type Target = ::std::string::String;
    fn deref(&self) -> &::std::string::String {
        &self.0
    }
}
impl ::std::convert::From<S> for ::std::string::String {
    fn from(value: S) -> Self {
        value.0
    }
}
impl ::std::convert::From<&S> for S {
    fn from(value: &S) -> Self {
        value.clone()
    }
}
impl ::std::str::FromStr for S {
    type Err = self::error::ConversionError;
    fn from_str(
        value: &str,
    ) -> ::std::result::Result<Self, self::error::ConversionError> {
        if value.chars().count() > 3usize {
            return Err("longer than 3 characters".into());
        }
        if value.chars().count() < 3usize {
            return Err("shorter than 3 characters".into());
        }
        Ok(Self(value.to_string()))
    }
}
impl ::std::convert::TryFrom<&str> for S {
    type Error = self::error::ConversionError;
    fn try_from(
        value: &str,
    ) -> ::std::result::Result<Self, self::error::ConversionError> {
        value.parse()
    }
}
impl ::std::convert::TryFrom<&::std::string::String> for S {
    type Error = self::error::ConversionError;
    fn try_from(
        value: &::std::string::String,
    ) -> ::std::result::Result<Self, self::error::ConversionError> {
        value.parse()
    }
}
impl ::std::convert::TryFrom<::std::string::String> for S {
    type Error = self::error::ConversionError;
    fn try_from(
        value: ::std::string::String,
    ) -> ::std::result::Result<Self, self::error::ConversionError> {
        value.parse()
    }
}
impl<'de> ::serde::Deserialize<'de> for S {
    fn deserialize<D>(deserializer: D) -> ::std::result::Result<Self, D::Error>
    where
        D: ::serde::Deserializer<'de>,
    {
        ::std::string::String::deserialize(deserializer)?
            .parse()
            .map_err(|e: self::error::ConversionError| {
                <D::Error as ::serde::de::Error>::custom(e.to_string())
            })
    }
}
