/// Error types.
pub mod error {
    /// Error from a `TryFrom` or `FromStr` implementation.
    pub struct ConversionError(::std::borrow::Cow<'static, str>);
    impl ::std::error::Error for ConversionError {}
    impl ::std::fmt::Display for ConversionError {
        fn fmt(
            &self,
            f: &mut ::std::fmt::Formatter<'_>,
        ) -> Result<(), ::std::fmt::Error> {
            ::std::fmt::Display::fmt(&self.0, f)
        }
    }
    impl ::std::fmt::Debug for ConversionError {
        fn fmt(
            &self,
            f: &mut ::std::fmt::Formatter<'_>,
        ) -> Result<(), ::std::fmt::Error> {
            ::std::fmt::Debug::fmt(&self.0, f)
        }
    }
    impl From<&'static str> for ConversionError {
        fn from(value: &'static str) -> Self {
            Self(value.into())
        }
    }
    impl From<String> for ConversionError {
        fn from(value: String) -> Self {
            Self(value.into())
        }
    }
}
///`Color`
///
/// <details><summary>JSON schema</summary>
///
/// ```json
///{
///  "type": "string",
///  "enum": [
///    "red",
///    "dark-green",
///    "Blue",
///    "é"
///  ]
///}
/// ```
/// </details>
#[derive(
    ::serde::Deserialize,
    ::serde::Serialize,
    Clone,
    Copy,
    Debug,
    Eq,
    Hash,
    Ord,
    PartialEq,
    PartialOrd
)]
pub enum Color {
    #[serde(rename = "red")]
    Red,
    #[serde(rename = "dark-green")]
    DarkGreen,
    Blue,
    #[serde(rename = "é")]
    É,
}
impl ::std::convert::From<&Self> for Color {
    fn from(value: &Color) -> Self {
        value.clone()
    }
}
impl ::std::fmt::Display for Color {
    fn fmt(&self, f: &mut ::std::fmt::Formatter<'_>) -> ::std::fmt::Result {
        match *self {
            Self::Red => write!(f, "red"),
            Self::DarkGreen => write!(f, "dark-green"),
            Self::Blue => write!(f, "Blue"),
            Self::É => write!(f, "é"),
        }
    }
}
impl ::std::str::FromStr for Color {
    type Err = self::error::ConversionError;
    fn from_str(
        value: &str,
    ) -> ::std::result::Result<Self, self::error::ConversionError> {
        match value {
            "red" => Ok(Self::Red),
            "dark-green" => Ok(Self::DarkGreen),
            "Blue" => Ok(Self::Blue),
            "é" => Ok(Self::É),
            _ => Err("invalid value".into()),
        }
    }
}
impl ::std::convert::TryFrom<&str> for Color {
    type Error = self::error::ConversionError;
    fn try_from(
        value: &str,
    ) -> ::std::result::Result<Self, self::error::ConversionError> {
        value.parse()
    }
}
impl ::std::convert::TryFrom<&::std::string::String> for Color {
    type Error = self::error::ConversionError;
    fn try_from(
        value: &::std::string::String,
    ) -> ::std::result::Result<Self, self::error::ConversionError> {
        value.parse()
    }
}
impl ::std::convert::TryFrom<::std::string::String> for Color {
    type Error = self::error::ConversionError;
    fn try_from(
        value: ::std::string::String,
    ) -> ::std::result::Result<Self, self::error::ConversionError> {
        value.parse()
    }
}
