/// Error types.
pub mod error {
    /// Error from a `TryFrom` or `FromStr` implementation.
    pub struct ConversionError(::std::borrow::Cow<'static, str>);
    impl ::std::error::Error for ConversionError {}
    impl ::std::fmt::Display for ConversionError {
        fn fmt(
            &self,
            f: &mut ::std::fmt::Formatter<'_>,
        ) -> Result<(), ::std::fmt::Error> {
            ::std::fmt::Display::fmt(&self.0, f)
        }
    }
    impl ::std::fmt::Debug for ConversionError {
        fn fmt(
            &self,
            f: &mut ::std::fmt::Formatter<'_>,
        ) -> Result<(), ::std::fmt::Error> {
            ::std::fmt::Debug::fmt(&self.0, f)
        }
    }
    impl From<&'static str> for ConversionError {
        fn from(value: &'static str) -> Self {
            Self(value.into())
        }
    }
    impl From<String> for ConversionError {
        fn from(value: String) -> Self {
            Self(value.into())
        }
    }
}
///`Triple`
///
/// <details><summary>JSON schema</summary>
///
/// ```json
///{
///  "type": "array",
///  "items": [
///    {
///      "type": "integer",
///      "format": "uint8"
///    },
///    {
///      "type": "string"
///    },
///    {
///      "type": [
///        "boolean",
///        "null"
///      ]
///    }
///  ],
///  "maxItems": 3,
///  "minItems": 3
///}
/// ```
/// </details>
#[derive(::serde::Deserialize, ::serde::Serialize, Clone, Debug)]
#[serde(transparent)]
pub struct Triple(pub (u8, ::std::string::String, ::std::option::Option<bool>));
impl ::std::ops::Deref for Triple {
    type Target = (u8, ::std::string::String, ::std::option::Option<bool>);
    fn deref(&self) -> &(u8, ::std::string::String, ::std::option::Option<bool>) {
        &self.0
    }
}
impl ::std::convert::From<Triple>
for (u8, ::std::string::String, ::std::option::Option<bool>) {
    fn from(value: Triple) -> Self {
        value.0
    }
}
impl ::std::convert::From<&Triple> for Triple {
    fn from(value: &Triple) -> Self {
        value.clone()
    }
}
impl ::std::convert::From<(u8, ::std::string::String, ::std::option::Option<bool>)>
for Triple {
    fn from(value: (u8, ::std::string::String, ::std::option::Option<bool>)) -> Self {
        Self(value)
    }
}
