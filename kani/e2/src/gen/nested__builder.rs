/// Error types.
pub mod error {
    /// Error from a `TryFrom` or `FromStr` implementation.
    pub struct ConversionError(::std::borrow::Cow<'static, str>);
    impl ::std::error::Error for ConversionError {}
    impl ::std::fmt::Display for ConversionError {
        fn fmt(
            &self,
            f: &mut ::std::fmt::Formatter<'_>,
        ) -> Result<(), ::std::fmt::Error> {
            ::std::fmt::Display::fmt(&self.0, f)
        }
    }
    impl ::std::fmt::Debug for ConversionError {
        fn fmt(
            &self,
            f: &mut ::std::fmt::Formatter<'_>,
        ) -> Result<(), ::std::fmt::Error> {
            ::std::fmt::Debug::fmt(&self.0, f)
        }
    }
    impl From<&'static str> for ConversionError {
        fn from(value: &'static str) -> Self {
            Self(value.into())
        }
    }
    impl From<String> for ConversionError {
        fn from(value: String) -> Self {
            Self(value.into())
        }
    }
}
///`Inner`
///
/// <details><summary>JSON schema</summary>
///
/// ```json
///{
///  "type": "object",
///  "required": [
///    "k"
///  ],
///  "properties": {
///    "k": {
///      "type": "integer",
///      "format": "uint8"
///    },
///    "o": {
///      "type": "boolean"
///    }
///  }
///}
/// ```
/// </details>
#[derive(::serde::Deserialize, ::serde::Serialize, Clone, Debug)]
pub struct Inner {
    pub k: u8,
    #[serde(default, skip_serializing_if = "::std::option::Option::is_none")]
    pub o: ::std::option::Option<bool>,
}
impl ::std::convert::From<&Inner> for Inner {
    fn from(value: &Inner) -> Self {
        value.clone()
    }
}
impl Inner {
    pub fn builder() -> builder::Inner {
        Default::default()
    }
}
///`Outer`
///
/// <details><summary>JSON schema</summary>
///
/// ```json
///{
///  "type": "object",
///  "required": [
///    "inner"
///  ],
///  "properties": {
///    "flag": {
///      "type": "boolean"
///    },
///    "inner": {
///      "$ref": "#/definitions/Inner"
///    },
///    "opt": {
///      "$ref": "#/definitions/Inner"
///    }
///  }
///}
/// ```
/// </details>
#[derive(::serde::Deserialize, ::serde::Serialize, Clone, Debug)]
pub struct Outer {
    #[serde(default, skip_serializing_if = "::std::option::Option::is_none")]
    pub flag: ::std::option::Option<bool>,
    pub inner: Inner,
    #[serde(default, skip_serializing_if = "::std::option::Option::is_none")]
    pub opt: ::std::option::Option<Inner>,
}
impl ::std::convert::From<&Outer> for Outer {
    fn from(value: &Outer) -> Self {
        value.clone()
    }
}
impl Outer {
    pub fn builder() -> builder::Outer {
        Default::default()
    }
}
/// Types for composing complex structures.
pub mod builder {
    #[derive(Clone, Debug)]
    pub struct Inner {
        k: ::std::result::Result<u8, ::std::string::String>,
        o: ::std::result::Result<::std::option::Option<bool>, ::std::string::String>,
    }
    impl ::std::default::Default for Inner {
        fn default() -> Self {
            Self {
                k: Err("no value supplied for k".to_string()),
                o: Ok(Default::default()),
            }
        }
    }
    impl Inner {
        pub fn k<T>(mut self, value: T) -> Self
        where
            T: ::std::convert::TryInto<u8>,
            T::Error: ::std::fmt::Display,
        {
            self.k = value
                .try_into()
                .map_err(|e| format!("error converting supplied value for k: {}", e));
            self
        }
        pub fn o<T>(mut self, value: T) -> Self
        where
            T: ::std::convert::TryInto<::std::option::Option<bool>>,
            T::Error: ::std::fmt::Display,
        {
            self.o = value
                .try_into()
                .map_err(|e| format!("error converting supplied value for o: {}", e));
            self
        }
    }
    impl ::std::convert::TryFrom<Inner> for super::Inner {
        type Error = super::error::ConversionError;
        fn try_from(
            value: Inner,
        ) -> ::std::result::Result<Self, super::error::ConversionError> {
            Ok(Self { k: value.k?, o: value.o? })
        }
    }
    impl ::std::convert::From<super::Inner> for Inner {
        fn from(value: super::Inner) -> Self {
            Self {
                k: Ok(value.k),
                o: Ok(value.o),
            }
        }
    }
    #[derive(Clone, Debug)]
    pub struct Outer {
        flag: ::std::result::Result<::std::option::Option<bool>, ::std::string::String>,
        inner: ::std::result::Result<super::Inner, ::std::string::String>,
        opt: ::std::result::Result<
            ::std::option::Option<super::Inner>,
            ::std::string::String,
        >,
    }
    impl ::std::default::Default for Outer {
        fn default() -> Self {
            Self {
                flag: Ok(Default::default()),
                inner: Err("no value supplied for inner".to_string()),
                opt: Ok(Default::default()),
            }
        }
    }
    impl Outer {
        pub fn flag<T>(mut self, value: T) -> Self
        where
            T: ::std::convert::TryInto<::std::option::Option<bool>>,
            T::Error: ::std::fmt::Display,
        {
            self.flag = value
                .try_into()
                .map_err(|e| format!("error converting supplied value for flag: {}", e));
            self
        }
        pub fn inner<T>(mut self, value: T) -> Self
        where
            T: ::std::convert::TryInto<super::Inner>,
            T::Error: ::std::fmt::Display,
        {
            self.inner = value
                .try_into()
                .map_err(|e| {
                    format!("error converting supplied value for inner: {}", e)
                });
            self
        }
        pub fn opt<T>(mut self, value: T) -> Self
        where
            T: ::std::convert::TryInto<::std::option::Option<super::Inner>>,
            T::Error: ::std::fmt::Display,
        {
            self.opt = value
                .try_into()
                .map_err(|e| format!("error converting supplied value for opt: {}", e));
            self
        }
    }
    impl ::std::convert::TryFrom<Outer> for super::Outer {
        type Error = super::error::ConversionError;
        fn try_from(
            value: Outer,
        ) -> ::std::result::Result<Self, super::error::ConversionError> {
            Ok(Self {
                flag: value.flag?,
                inner: value.inner?,
                opt: value.opt?,
            })
        }
    }
    impl ::std::convert::From<super::Outer> for Outer {
        fn from(value: super::Outer) -> Self {
            Self {
                flag: Ok(value.flag),
                inner: Ok(value.inner),
                opt: Ok(value.opt),
            }
        }
    }
}
