/// Error types.
pub mod error {
    /// Error from a `TryFrom` or `FromStr` implementation.
    pub struct ConversionError(::std::borrow::Cow<'static, str>);
    impl ::std::error::Error for ConversionError {}
    impl ::std::fmt::Display for ConversionError {
        fn fmt(
            &self,
            f: &mut ::std::fmt::Formatter<'_>,
        ) -> Result<(), ::std::fmt::Error> {
            ::std::fmt::Display::fmt(&self.0, f)
        }
    }
    impl ::std::fmt::Debug for ConversionError {
        fn fmt(
            &self,
            f: &mut ::std::fmt::Formatter<'_>,
        ) -> Result<(), ::std::fmt::Error> {
            ::std::fmt::Debug::fmt(&self.0, f)
        }
    }
    impl From<&'static str> for ConversionError {
        fn from(value: &'static str) -> Self {
            Self(value.into())
        }
    }
    impl From<String> for ConversionError {
        fn from(value: String) -> Self {
            Self(value.into())
        }
    }
}
///`Bounds`
///
/// <details><summary>JSON schema</summary>
///
/// ```json
///{
///  "type": "object",
///  "required": [
///    "both",
///    "hi",
///    "lo",
///    "nz"
///  ],
///  "properties": {
///    "both": {
///      "type": "integer",
///      "maximum": 255.0,
///      "minimum": 0.0
///    },
///    "hi": {
///      "type": "integer",
///      "maximum": 255.0
///    },
///    "lo": {
///      "type": "integer",
///      "minimum": 0.0
///    },
///    "nz": {
///      "type": "integer",
///      "format": "uint32",
///      "minimum": 1.0
///    }
///  }
///}
/// ```
/// </details>
#[derive(::serde::Deserialize, ::serde::Serialize, Clone, Debug)]
pub struct Bounds {
    pub both: u8,
    pub hi: i64,
    pub lo: u64,
    pub nz: ::std::num::NonZeroU32,
}
impl ::std::convert::From<&Bounds> for Bounds {
    fn from(value: &Bounds) -> Self {
        value.clone()
    }
}
impl Bounds {
    pub fn builder() -> builder::Bounds {
        Default::default()
    }
}
/// Types for composing complex structures.
pub mod builder {
    #[derive(Clone, Debug)]
    pub struct Bounds {
        both: ::std::result::Result<u8, ::std::string::String>,
        hi: ::std::result::Result<i64, ::std::string::String>,
        lo: ::std::result::Result<u64, ::std::string::String>,
        nz: ::std::result::Result<::std::num::NonZeroU32, ::std::string::String>,
    }
    impl ::std::default::Default for Bounds {
        fn default() -> Self {
            Self {
                both: Err("no value supplied for both".to_string()),
                hi: Err("no value supplied for hi".to_string()),
                lo: Err("no value supplied for lo".to_string()),
                nz: Err("no value supplied for nz".to_string()),
            }
        }
    }
    impl Bounds {
        pub fn both<T>(mut self, value: T) -> Self
        where
            T: ::std::convert::TryInto<u8>,
            T::Error: ::std::fmt::Display,
        {
            self.both = value
                .try_into()
                .map_err(|e| format!("error converting supplied value for both: {}", e));
            self
        }
        pub fn hi<T>(mut self, value: T) -> Self
        where
            T: ::std::convert::TryInto<i64>,
            T::Error: ::std::fmt::Display,
        {
            self.hi = value
                .try_into()
                .map_err(|e| format!("error converting supplied value for hi: {}", e));
            self
        }
        pub fn lo<T>(mut self, value: T) -> Self
        where
            T: ::std::convert::TryInto<u64>,
            T::Error: ::std::fmt::Display,
        {
            self.lo = value
                .try_into()
                .map_err(|e| format!("error converting supplied value for lo: {}", e));
            self
        }
        pub fn nz<T>(mut self, value: T) -> Self
        where
            T: ::std::convert::TryInto<::std::num::NonZeroU32>,
            T::Error: ::std::fmt::Display,
        {
            self.nz = value
                .try_into()
                .map_err(|e| format!("error converting supplied value for nz: {}", e));
            self
        }
    }
    impl ::std::convert::TryFrom<Bounds> for super::Bounds {
        type Error = super::error::ConversionError;
        fn try_from(
            value: Bounds,
        ) -> ::std::result::Result<Self, super::error::ConversionError> {
            Ok(Self {
                both: value.both?,
                hi: value.hi?,
                lo: value.lo?,
                nz: value.nz?,
            })
        }
    }
    impl ::std::convert::From<super::Bounds> for Bounds {
        fn from(value: super::Bounds) -> Self {
            Self {
                both: Ok(value.both),
                hi: Ok(value.hi),
                lo: Ok(value.lo),
                nz: Ok(value.nz),
            }
        }
    }
}
