/// Error types.
pub mod error {
    /// Error from a `TryFrom` or `FromStr` implementation.
    pub struct ConversionError(::std::borrow::Cow<'static, str>);
    impl ::std::error::Error for ConversionError {}
    impl ::std::fmt::Display for ConversionError {
        fn fmt(
            &self,
            f: &mut ::std::fmt::Formatter<'_>,
        ) -> Result<(), ::std::fmt::Error> {
            ::std::fmt::Display::fmt(&self.0, f)
        }
    }
    impl ::std::fmt::Debug for ConversionError {
        fn fmt(
            &self,
            f: &mut ::std::fmt::Formatter<'_>,
        ) -> Result<(), ::std::fmt::Error> {
            ::std::fmt::Debug::fmt(&self.0, f)
        }
    }
    impl From<&'static str> for ConversionError {
        fn from(value: &'static str) -> Self {
            Self(value.into())
        }
    }
    impl From<String> for ConversionError {
        fn from(value: String) -> Self {
            Self(value.into())
        }
    }
}
///`Color`
///
/// <details><summary>JSON schema</summary>
///
/// ```json
///{
///  "type": "string",
///  "enum": [
///    "red",
///    "dark-green",
///    "Blue",
///    "é"
///  ]
///}
/// ```
/// </details>
#[derive(
    ::serde::Deserialize,
    ::serde::Serialize,
    Clone,
    Copy,
    Debug,
    Eq,
    Hash,
    Ord,
    PartialEq,
    PartialOrd
)]
pub enum Color {
    #[serde(rename = "red")]
    Red,
    #[serde(rename = "dark-green")]
    DarkGreen,
    Blue,
    #[serde(rename = "é")]
    É,
}
impl ::std::convert::From<&Self> for Color {
    fn from(value: &Color) -> Self {
        value.clone()
    }
}
impl ::std::fmt::Display for Color {
    fn fmt(&self, f: &mut ::std::fmt::Formatter<'_>) -> ::std::fmt::Result {
        match *self {
            Self::Red => write!(f, "red"),
            Self::DarkGreen => write!(f, "dark-green"),
            Self::Blue => write!(f, "Blue"),
            Self::É => write!(f, "é"),
        }
    }
}
impl ::std::str::FromStr for Color {
    type Err = self::error::ConversionError;
    fn from_str(
        value: &str,
    ) -> ::std::result::Result<Self, self::error::ConversionError> {
        match value {
            "red" => Ok(Self::Red),
            "dark-green" => Ok(Self::DarkGreen),
            "Blue" => Ok(Self::Blue),
            "é" => Ok(Self::É),
            _ => Err("invalid value".into()),
        }
    }
}
impl ::std::convert::TryFrom<&str> for Color {
    type Error = self::error::ConversionError;
    fn try_from(
        value: &str,
    ) -> ::std::result::Result<Self, self::error::ConversionError> {
        value.parse()
    }
}
impl ::std::convert::TryFrom<&::std::string::String> for Color {
    type Error = self::error::ConversionError;
    fn try_from(
        value: &::std::string::String,
    ) -> ::std::result::Result<Self, self::error::ConversionError> {
        value.parse()
    }
}
impl ::std::convert::TryFrom<::std::string::String> for Color {
    type Error = self::error::ConversionError;
    fn try_from(
        value: ::std::string::String,
    ) -> ::std::result::Result<Self, self::error::ConversionError> {
        value.parse()
    }
}
///`W`
///
/// <details><summary>JSON schema</summary>
///
/// ```json
///{
///  "type": "object",
///  "required": [
///    "c"
///  ],
///  "properties": {
///    "c": {
///      "$ref": "#/definitions/Color"
///    },
///    "d": {
///      "$ref": "#/definitions/Color"
///    },
///    "n": {
///      "type": "string",
///      "maxLength": 2,
///      "minLength": 1
///    }
///  }
///}
/// ```
/// </details>
#[derive(::serde::Deserialize, ::serde::Serialize, Clone, Debug)]
pub struct W {
    pub c: Color,
    #[serde(default, skip_serializing_if = "::std::option::Option::is_none")]
    pub d: ::std::option::Option<Color>,
    #[serde(default, skip_serializing_if = "::std::option::Option::is_none")]
    pub n: ::std::option::Option<WN>,
}
impl ::std::convert::From<&W> for W {
    fn from(value: &W) -> Self {
        value.clone()
    }
}
impl W {
    pub fn builder() -> builder::W {
        Default::default()
    }
}
///`WN`
///
/// <details><summary>JSON schema</summary>
///
/// ```json
///{
///  "type": "string",
///  "maxLength": 2,
///  "minLength": 1
///}
/// ```
/// </details>
#[derive(::serde::Serialize, Clone, Debug, Eq, Hash, Ord, PartialEq, PartialOrd)]
#[serde(transparent)]
pub struct WN(::std::string::String);
impl ::std::ops::Deref for WN {
    type Target = ::std::string::String;
    fn deref(&self) -> &::std::string::String {
        &self.0
    }
}
impl ::std::convert::From<WN> for ::std::string::String {
    fn from(value: WN) -> Self {
        value.0
    }
}
impl ::std::convert::From<&WN> for WN {
    fn from(value: &WN) -> Self {
        value.clone()
    }
}
impl ::std::str::FromStr for WN {
    type Err = self::error::ConversionError;
    fn from_str(
        value: &str,
    ) -> ::std::result::Result<Self, self::error::ConversionError> {
        if value.chars().count() > 2usize {
            return Err("longer than 2 characters".into());
        }
        if value.chars().count() < 1usize {
            return Err("shorter than 1 characters".into());
        }
        Ok(Self(value.to_string()))
    }
}
impl ::std::convert::TryFrom<&str> for WN {
    type Error = self::error::ConversionError;
    fn try_from(
        value: &str,
    ) -> ::std::result::Result<Self, self::error::ConversionError> {
        value.parse()
    }
}
impl ::std::convert::TryFrom<&::std::string::String> for WN {
    type Error = self::error::ConversionError;
    fn try_from(
        value: &::std::string::String,
    ) -> ::std::result::Result<Self, self::error::ConversionError> {
        value.parse()
    }
}
impl ::std::convert::TryFrom<::std::string::String> for WN {
    type Error = self::error::ConversionError;
    fn try_from(
        value: ::std::string::String,
    ) -> ::std::result::Result<Self, self::error::ConversionError> {
        value.parse()
    }
}
impl<'de> ::serde::Deserialize<'de> for WN {
    fn deserialize<D>(deserializer: D) -> ::std::result::Result<Self, D::Error>
    where
        D: ::serde::Deserializer<'de>,
    {
        ::std::string::String::deserialize(deserializer)?
            .parse()
            .map_err(|e: self::error::ConversionError| {
                <D::Error as ::serde::de::Error>::custom(e.to_string())
            })
    }
}
/// Types for composing complex structures.
pub mod builder {
    #[derive(Clone, Debug)]
    pub struct W {
        c: ::std::result::Result<super::Color, ::std::string::String>,
        d: ::std::result::Result<
            ::std::option::Option<super::Color>,
            ::std::string::String,
        >,
        n: ::std::result::Result<
            ::std::option::Option<super::WN>,
            ::std::string::String,
        >,
    }
    impl ::std::default::Default for W {
        fn default() -> Self {
            Self {
                c: Err("no value supplied for c".to_string()),
                d: Ok(Default::default()),
                n: Ok(Default::default()),
            }
        }
    }
    impl W {
        pub fn c<T>(mut self, value: T) -> Self
        where
            T: ::std::convert::TryInto<super::Color>,
            T::Error: ::std::fmt::Display,
        {
            self.c = value
                .try_into()
                .map_err(|e| format!("error converting supplied value for c: {}", e));
            self
        }
        pub fn d<T>(mut self, value: T) -> Self
        where
            T: ::std::convert::TryInto<::std::option::Option<super::Color>>,
            T::Error: ::std::fmt::Display,
        {
            self.d = value
                .try_into()
                .map_err(|e| format!("error converting supplied value for d: {}", e));
            self
        }
        pub fn n<T>(mut self, value: T) -> Self
        where
            T: ::std::convert::TryInto<::std::option::Option<super::WN>>,
            T::Error: ::std::fmt::Display,
        {
            self.n = value
                .try_into()
                .map_err(|e| format!("error converting supplied value for n: {}", e));
            self
        }
    }
    impl ::std::convert::TryFrom<W> for super::W {
        type Error = super::error::ConversionError;
        fn try_from(
            value: W,
        ) -> ::std::result::Result<Self, super::error::ConversionError> {
            Ok(Self {
                c: value.c?,
                d: value.d?,
                n: value.n?,
            })
        }
    }
    impl ::std::convert::From<super::W> for W {
        fn from(value: super::W) -> Self {
            Self {
                c: Ok(value.c),
                d: Ok(value.d),
                n: Ok(value.n),
            }
        }
    }
}
