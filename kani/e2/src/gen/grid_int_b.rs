/// Error types.
pub mod error {
    /// Error from a `TryFrom` or `FromStr` implementation.
    pub struct ConversionError(::std::borrow::Cow<'static, str>);
    impl ::std::error::Error for ConversionError {}
    impl ::std::fmt::Display for ConversionError {
        fn fmt(
            &self,
            f: &mut ::std::fmt::Formatter<'_>,
        ) -> Result<(), ::std::fmt::Error> {
            ::std::fmt::Display::fmt(&self.0, f)
        }
    }
    impl ::std::fmt::Debug for ConversionError {
        fn fmt(
            &self,
            f: &mut ::std::fmt::Formatter<'_>,
        ) -> Result<(), ::std::fmt::Error> {
            ::std::fmt::Debug::fmt(&self.0, f)
        }
    }
    impl From<&'static str> for ConversionError {
        fn from(value: &'static str) -> Self {
            Self(value.into())
        }
    }
    impl From<String> for ConversionError {
        fn from(value: String) -> Self {
            Self(value.into())
        }
    }
}
///`G`
///
/// <details><summary>JSON schema</summary>
///
/// ```json
///{
///  "type": "object",
///  "required": [
///    "a-req"
///  ],
///  "properties": {
///    "a-req": {
///      "type": "integer",
///      "format": "int16"
///    },
///    "bOpt": {
///      "type": "integer",
///      "format": "int16"
///    },
///    "c-def0": {
///      "default": 0,
///      "type": "integer",
///      "format": "int16"
///    },
///    "dDef": {
///      "default": -5,
///      "type": "integer",
///      "format": "int16"
///    },
///    "e-null": {
///      "type": [
///        "integer",
///        "null"
///      ],
///      "format": "int16"
///    },
///    "fNullDef": {
///      "default": -5,
///      "type": [
///        "integer",
///        "null"
///      ],
///      "format": "int16"
///    }
///  }
///}
/// ```
/// </details>
#[derive(::serde::Deserialize, ::serde::Serialize, Clone, Debug)]
pub struct G {
    #[serde(rename = "a-req")]
    pub a_req: i16,
    #[serde(
        rename = "bOpt",
        default,
        skip_serializing_if = "::std::option::Option::is_none"
    )]
    pub b_opt: ::std::option::Option<i16>,
    #[serde(rename = "c-def0", default)]
    pub c_def0: i16,
    #[serde(rename = "dDef", default = "defaults::default_i64::<i16, -5>")]
    pub d_def: i16,
    #[serde(
        rename = "e-null",
        default,
        skip_serializing_if = "::std::option::Option::is_none"
    )]
    pub e_null: ::std::option::Option<i16>,
    #[serde(rename = "fNullDef", default = "defaults::g_f_null_def")]
    pub f_null_def: ::std::option::Option<i16>,
}
impl ::std::convert::From<&G> for G {
    fn from(value: &G) -> Self {
        value.clone()
    }
}
impl G {
    pub fn builder() -> builder::G {
        Default::default()
    }
}
/// Types for composing complex structures.
pub mod builder {
    #[derive(Clone, Debug)]
    pub struct G {
        a_req: ::std::result::Result<i16, ::std::string::String>,
        b_opt: ::std::result::Result<::std::option::Option<i16>, ::std::string::String>,
        c_def0: ::std::result::Result<i16, ::std::string::String>,
        d_def: ::std::result::Result<i16, ::std::string::String>,
        e_null: ::std::result::Result<::std::option::Option<i16>, ::std::string::String>,
        f_null_def: ::std::result::Result<
            ::std::option::Option<i16>,
            ::std::string::String,
        >,
    }
    impl ::std::default::Default for G {
        fn default() -> Self {
            Self {
                a_req: Err("no value supplied for a_req".to_string()),
                b_opt: Ok(Default::default()),
                c_def0: Ok(Default::default()),
                d_def: Ok(super::defaults::default_i64::<i16, -5>()),
                e_null: Ok(Default::default()),
                f_null_def: Ok(super::defaults::g_f_null_def()),
            }
        }
    }
    impl G {
        pub fn a_req<T>(mut self, value: T) -> Self
        where
            T: ::std::convert::TryInto<i16>,
            T::Error: ::std::fmt::Display,
        {
            self.a_req = value
                .try_into()
                .map_err(|e| {
                    format!("error converting supplied value for a_req: {}", e)
                });
            self
        }
        pub fn b_opt<T>(mut self, value: T) -> Self
        where
            T: ::std::convert::TryInto<::std::option::Option<i16>>,
            T::Error: ::std::fmt::Display,
        {
            self.b_opt = value
                .try_into()
                .map_err(|e| {
                    format!("error converting supplied value for b_opt: {}", e)
                });
            self
        }
        pub fn c_def0<T>(mut self, value: T) -> Self
        where
            T: ::std::convert::TryInto<i16>,
            T::Error: ::std::fmt::Display,
        {
            self.c_def0 = value
                .try_into()
                .map_err(|e| {
                    format!("error converting supplied value for c_def0: {}", e)
                });
            self
        }
        pub fn d_def<T>(mut self, value: T) -> Self
        where
            T: ::std::convert::TryInto<i16>,
            T::Error: ::std::fmt::Display,
        {
            self.d_def = value
                .try_into()
                .map_err(|e| {
                    format!("error converting supplied value for d_def: {}", e)
                });
            self
        }
        pub fn e_null<T>(mut self, value: T) -> Self
        where
            T: ::std::convert::TryInto<::std::option::Option<i16>>,
            T::Error: ::std::fmt::Display,
        {
            self.e_null = value
                .try_into()
                .map_err(|e| {
                    format!("error converting supplied value for e_null: {}", e)
                });
            self
        }
        pub fn f_null_def<T>(mut self, value: T) -> Self
        where
            T: ::std::convert::TryInto<::std::option::Option<i16>>,
            T::Error: ::std::fmt::Display,
        {
            self.f_null_def = value
                .try_into()
                .map_err(|e| {
                    format!("error converting supplied value for f_null_def: {}", e)
                });
            self
        }
    }
    impl ::std::convert::TryFrom<G> for super::G {
        type Error = super::error::ConversionError;
        fn try_from(
            value: G,
        ) -> ::std::result::Result<Self, super::error::ConversionError> {
            Ok(Self {
                a_req: value.a_req?,
                b_opt: value.b_opt?,
                c_def0: value.c_def0?,
                d_def: value.d_def?,
                e_null: value.e_null?,
                f_null_def: value.f_null_def?,
            })
        }
    }
    impl ::std::convert::From<super::G> for G {
        fn from(value: super::G) -> Self {
            Self {
                a_req: Ok(value.a_req),
                b_opt: Ok(value.b_opt),
                c_def0: Ok(value.c_def0),
                d_def: Ok(value.d_def),
                e_null: Ok(value.e_null),
                f_null_def: Ok(value.f_null_def),
            }
        }
    }
}
/// Generation of default values for serde.
pub mod defaults {
    pub(super) fn default_i64<T, const V: i64>() -> T
    where
        T: ::std::convert::TryFrom<i64>,
        <T as ::std::convert::TryFrom<i64>>::Error: ::std::fmt::Debug,
    {
        T::try_from(V).unwrap()
    }
    pub(super) fn g_f_null_def() -> ::std::option::Option<i16> {
        ::std::option::Option::Some(-5_i16)
    }
}
