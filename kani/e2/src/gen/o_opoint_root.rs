/// Error types.
pub mod error {
    /// Error from a `TryFrom` or `FromStr` implementation.
    pub struct ConversionError(::std::borrow::Cow<'static, str>);
    impl ::std::error::Error for ConversionError {}
    impl ::std::fmt::Display for ConversionError {
        fn fmt(
            &self,
            f: &mut ::std::fmt::Formatter<'_>,
        ) -> Result<(), ::std::fmt::Error> {
            ::std::fmt::Display::fmt(&self.0, f)
        }
    }
    impl ::std::fmt::Debug for ConversionError {
        fn fmt(
            &self,
            f: &mut ::std::fmt::Formatter<'_>,
        ) -> Result<(), ::std::fmt::Error> {
            ::std::fmt::Debug::fmt(&self.0, f)
        }
    }
    impl From<&'static str> for ConversionError {
        fn from(value: &'static str) -> Self {
            Self(value.into())
        }
    }
    impl From<String> for ConversionError {
        fn from(value: String) -> Self {
            Self(value.into())
        }
    }
}
///`OPoint`
///
/// <details><summary>JSON schema</summary>
///
/// ```json
///{
///  "title": "OPoint",
///  "type": "object",
///  "required": [
///    "ok",
///    "x",
///    "y"
///  ],
///  "properties": {
///    "ok": {
///      "type": "boolean"
///    },
///    "x": {
///      "type": "integer",
///      "format": "uint8",
///      "minimum": 0.0
///    },
///    "y": {
///      "type": "integer",
///      "format": "int32"
///    }
///  }
///}
/// ```
/// </details>
#[derive(::serde::Deserialize, ::serde::Serialize, Clone, Debug)]
pub struct OPoint {
    pub ok: bool,
    pub x: u8,
    pub y: i32,
}
impl ::std::convert::From<&OPoint> for OPoint {
    fn from(value: &OPoint) -> Self {
        value.clone()
    }
}
