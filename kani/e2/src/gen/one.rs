/// Error types.
pub mod error {
    /// Error from a `TryFrom` or `FromStr` implementation.
    pub struct ConversionError(::std::borrow::Cow<'static, str>);
    impl ::std::error::Error for ConversionError {}
    impl ::std::fmt::Display for ConversionError {
        fn fmt(
            &self,
            f: &mut ::std::fmt::Formatter<'_>,
        ) -> Result<(), ::std::fmt::Error> {
            ::std::fmt::Display::fmt(&self.0, f)
        }
    }
    impl ::std::fmt::Debug for ConversionError {
        fn fmt(
            &self,
            f: &mut ::std::fmt::Formatter<'_>,
        ) -> Result<(), ::std::fmt::Error> {
            ::std::fmt::Debug::fmt(&self.0, f)
        }
    }
    impl From<&'static str> for ConversionError {
        fn from(value: &'static str) -> Self {
            Self(value.into())
        }
    }
    impl From<String> for ConversionError {
        fn from(value: String) -> Self {
            Self(value.into())
        }
    }
}
///`One`
///
/// <details><summary>JSON schema</summary>
///
/// ```json
///{
///  "type": "string",
///  "enum": [
///    "only"
///  ]
///}
/// ```
/// </details>
#[derive(
    ::serde::Deserialize,
    ::serde::Serialize,
    Clone,
    Copy,
    Debug,
    Eq,
    Hash,
    Ord,
    PartialEq,
    PartialOrd
)]
pub enum One {
    #[serde(rename = "only")]
    Only,
}
impl ::std::convert::From<&Self> for One {
    fn from(value: &One) -> Self {
        value.clone()
    }
}
impl ::std::fmt::Display for One {
    fn fmt(&self, f: &mut ::std::fmt::Formatter<'_>) -> ::std::fmt::Result {
        match *self {
            Self::Only => write!(f, "only"),
        }
    }
}
impl ::std::str::FromStr for One {
    type Err = self::error::ConversionError;
    fn from_str(
        value: &str,
    ) -> ::std::result::Result<Self, self::error::ConversionError> {
        match value {
            "only" => Ok(Self::Only),
            _ => Err("invalid value".into()),
        }
    }
}
impl ::std::convert::TryFrom<&str> for One {
    type Error = self::error::ConversionError;
    fn try_from(
        value: &str,
    ) -> ::std::result::Result<Self, self::error::ConversionError> {
        value.parse()
    }
}
impl ::std::convert::TryFrom<&::std::string::String> for One {
    type Error = self::error::ConversionError;
    fn try_from(
        value: &::std::string::String,
    ) -> ::std::result::Result<Self, self::error::ConversionError> {
        value.parse()
    }
}
impl ::std::convert::TryFrom<::std::string::String> for One {
    type Error = self::error::ConversionError;
    fn try_from(
        value: ::std::string::String,
    ) -> ::std::result::Result<Self, self::error::ConversionError> {
        value.parse()
    }
}
