/// Error types.
pub mod error {
    /// Error from a `TryFrom` or `FromStr` implementation.
    pub struct ConversionError(::std::borrow::Cow<'static, str>);
    impl ::std::error::Error for ConversionError {}
    impl ::std::fmt::Display for ConversionError {
        fn fmt(
            &self,
            f: &mut ::std::fmt::Formatter<'_>,
        ) -> Result<(), ::std::fmt::Error> {
            ::std::fmt::Display::fmt(&self.0, f)
        }
    }
    impl ::std::fmt::Debug for ConversionError {
        fn fmt(
            &self,
            f: &mut ::std::fmt::Formatter<'_>,
        ) -> Result<(), ::std::fmt::Error> {
            ::std::fmt::Debug::fmt(&self.0, f)
        }
    }
    impl From<&'static str> for ConversionError {
        fn from(value: &'static str) -> Self {
            Self(value.into())
        }
    }
    impl From<String> for ConversionError {
        fn from(value: String) -> Self {
            Self(value.into())
        }
    }
}
///`T`
///
/// <details><summary>JSON schema</summary>
///
/// ```json
///{
///  "type": "object",
///  "required": [
///    "p"
///  ],
///  "properties": {
///    "p": {
///      "type": "array",
///      "items": [
///        {
///          "type": "integer"
///        },
///        {
///          "type": "boolean"
///        }
///      ],
///      "maxItems": 2,
///      "minItems": 2
///    },
///    "q": {
///      "type": "boolean"
///    }
///  }
///}
/// ```
/// </details>
#[derive(::serde::Deserialize, ::serde::Serialize, Clone, Debug, PartialEq)]
pub struct T {
    pub p: (i64, bool),
    #[serde(default, skip_serializing_if = "::std::option::Option::is_none")]
    pub q: ::std::option::Option<bool>,
}
impl ::std::convert::From<&T> for T {
    fn from(value: &T) -> Self {
        value.clone()
    }
}
