/// Error types.
pub mod error {
    /// Error from a `TryFrom` or `FromStr` implementation.
    pub struct ConversionError(::std::borrow::Cow<'static, str>);
    impl ::std::error::Error for ConversionError {}
    impl ::std::fmt::Display for ConversionError {
        fn fmt(
            &self,
            f: &mut ::std::fmt::Formatter<'_>,
        ) -> Result<(), ::std::fmt::Error> {
            ::std::fmt::Display::fmt(&self.0, f)
        }
    }
    impl ::std::fmt::Debug for ConversionError {
        fn fmt(
            &self,
            f: &mut ::std::fmt::Formatter<'_>,
        ) -> Result<(), ::std::fmt::Error> {
            ::std::fmt::Debug::fmt(&self.0, f)
        }
    }
    impl From<&'static str> for ConversionError {
        fn from(value: &'static str) -> Self {
            Self(value.into())
        }
    }
    impl From<String> for ConversionError {
        fn from(value: String) -> Self {
            Self(value.into())
        }
    }
}
///`NotInt`
///
/// <details><summary>JSON schema</summary>
///
/// ```json
///{
///  "type": "integer",
///  "not": {
///    "enum": [
///      1,
///      2
///    ]
///  }
///}
/// ```
/// </details>
#[derive(::serde::Serialize, Clone, Debug)]
#[serde(transparent)]
pub struct NotInt(f64);
impl ::std::ops::Deref for NotInt {
    type Target = f64;
    fn deref(&self) -> &f64 {
        &self.0
    }
}
impl ::std::convert::From<NotInt> for f64 {
    fn from(value: NotInt) -> Self {
        value.0
    }
}
impl ::std::convert::From<&NotInt> for NotInt {
    fn from(value: &NotInt) -> Self {
        value.clone()
    }
}
impl ::std::convert::TryFrom<f64> for NotInt {
    type Error = self::error::ConversionError;
    fn try_from(
        value: f64,
    ) -> ::std::result::Result<Self, self::error::ConversionError> {
        if [1_f64, 2_f64].contains(&value) {
            Err("invalid value".into())
        } else {
            Ok(Self(value))
        }
    }
}
impl<'de> ::serde::Deserialize<'de> for NotInt {
    fn deserialize<D>(deserializer: D) -> ::std::result::Result<Self, D::Error>
    where
        D: ::serde::Deserializer<'de>,
    {
        Self::try_from(<f64>::deserialize(deserializer)?)
            .map_err(|e| { <D::Error as ::serde::de::Error>::custom(e.to_string()) })
    }
}
