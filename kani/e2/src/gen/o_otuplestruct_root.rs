/// Error types.
pub mod error {
    /// Error from a `TryFrom` or `FromStr` implementation.
    pub struct ConversionError(::std::borrow::Cow<'static, str>);
    impl ::std::error::Error for ConversionError {}
    impl ::std::fmt::Display for ConversionError {
        fn fmt(
            &self,
            f: &mut ::std::fmt::Formatter<'_>,
        ) -> Result<(), ::std::fmt::Error> {
            ::std::fmt::Display::fmt(&self.0, f)
        }
    }
    impl ::std::fmt::Debug for ConversionError {
        fn fmt(
            &self,
            f: &mut ::std::fmt::Formatter<'_>,
        ) -> Result<(), ::std::fmt::Error> {
            ::std::fmt::Debug::fmt(&self.0, f)
        }
    }
    impl From<&'static str> for ConversionError {
        fn from(value: &'static str) -> Self {
            Self(value.into())
        }
    }
    impl From<String> for ConversionError {
        fn from(value: String) -> Self {
            Self(value.into())
        }
    }
}
///`OTupleStruct`
///
/// <details><summary>JSON schema</summary>
///
/// ```json
///{
///  "title": "OTupleStruct",
///  "type": "array",
///  "items": [
///    {
///      "type": "integer",
///      "format": "uint8",
///      "minimum": 0.0
///    },
///    {
///      "type": "boolean"
///    }
///  ],
///  "maxItems": 2,
///  "minItems": 2
///}
/// ```
/// </details>
#[derive(::serde::Deserialize, ::serde::Serialize, Clone, Debug)]
#[serde(transparent)]
pub struct OTupleStruct(pub (u8, bool));
impl ::std::ops::Deref for OTupleStruct {
    type Target = (u8, bool);
    fn deref(&self) -> &(u8, bool) {
        &self.0
    }
}
impl ::std::convert::From<OTupleStruct> for (u8, bool) {
    fn from(value: OTupleStruct) -> Self {
        value.0
    }
}
impl ::std::convert::From<&OTupleStruct> for OTupleStruct {
    fn from(value: &OTupleStruct) -> Self {
        value.clone()
    }
}
impl ::std::convert::From<(u8, bool)> for OTupleStruct {
    fn from(value: (u8, bool)) -> Self {
        Self(value)
    }
}
