/// Error types.
pub mod error {
    /// Error from a `TryFrom` or `FromStr` implementation.
    pub struct ConversionError(::std::borrow::Cow<'static, str>);
    impl ::std::error::Error for ConversionError {}
    impl ::std::fmt::Display for ConversionError {
        fn fmt(
            &self,
            f: &mut ::std::fmt::Formatter<'_>,
        ) -> Result<(), ::std::fmt::Error> {
            ::std::fmt::Display::fmt(&self.0, f)
        }
    }
    impl ::std::fmt::Debug for ConversionError {
        fn fmt(
            &self,
            f: &mut ::std::fmt::Formatter<'_>,
        ) -> Result<(), ::std::fmt::Error> {
            ::std::fmt::Debug::fmt(&self.0, f)
        }
    }
    impl From<&'static str> for ConversionError {
        fn from(value: &'static str) -> Self {
            Self(value.into())
        }
    }
    impl From<String> for ConversionError {
        fn from(value: String) -> Self {
            Self(value.into())
        }
    }
}
///`I`
///
/// <details><summary>JSON schema</summary>
///
/// ```json
///{
///  "type": "object",
///  "required": [
///    "k"
///  ],
///  "properties": {
///    "k": {
///      "type": "boolean"
///    }
///  }
///}
/// ```
/// </details>
#[derive(::serde::Deserialize, ::serde::Serialize, Clone, Debug)]
pub struct I {
    pub k: bool,
}
impl ::std::convert::From<&I> for I {
    fn from(value: &I) -> Self {
        value.clone()
    }
}
///`N`
///
/// <details><summary>JSON schema</summary>
///
/// ```json
///{
///  "type": "object",
///  "required": [
///    "a"
///  ],
///  "properties": {
///    "a": {
///      "type": [
///        "integer",
///        "null"
///      ]
///    },
///    "b": {
///      "oneOf": [
///        {
///          "$ref": "#/definitions/I"
///        },
///        {
///          "type": "null"
///        }
///      ]
///    }
///  }
///}
/// ```
/// </details>
#[derive(::serde::Deserialize, ::serde::Serialize, Clone, Debug)]
pub struct N {
    pub a: ::std::option::Option<i64>,
    #[serde(default, skip_serializing_if = "::std::option::Option::is_none")]
    pub b: ::std::option::Option<I>,
}
impl ::std::convert::From<&N> for N {
    fn from(value: &N) -> Self {
        value.clone()
    }
}
