/// Error types.
pub mod error {
    /// Error from a `TryFrom` or `FromStr` implementation.
    pub struct ConversionError(::std::borrow::Cow<'static, str>);
    impl ::std::error::Error for ConversionError {}
    impl ::std::fmt::Display for ConversionError {
        fn fmt(
            &self,
            f: &mut ::std::fmt::Formatter<'_>,
        ) -> Result<(), ::std::fmt::Error> {
            ::std::fmt::Display::fmt(&self.0, f)
        }
    }
    impl ::std::fmt::Debug for ConversionError {
        fn fmt(
            &self,
            f: &mut ::std::fmt::Formatter<'_>,
        ) -> Result<(), ::std::fmt::Error> {
            ::std::fmt::Debug::fmt(&self.0, f)
        }
    }
    impl From<&'static str> for ConversionError {
        fn from(value: &'static str) -> Self {
            Self(value.into())
        }
    }
    impl From<String> for ConversionError {
        fn from(value: String) -> Self {
            Self(value.into())
        }
    }
}
///`Widget`
///
/// <details><summary>JSON schema</summary>
///
/// ```json
///{
///  "title": "Widget",
///  "default": {
///    "display-name": "anon",
///    "id": 7,
///    "type": "gadget"
///  },
///  "type": "object",
///  "required": [
///    "display-name",
///    "id",
///    "type"
///  ],
///  "properties": {
///    "display-name": {
///      "type": "string"
///    },
///    "enabled": {
///      "default": true,
///      "type": "boolean"
///    },
///    "id": {
///      "type": "integer",
///      "format": "uint32"
///    },
///    "retryCount": {
///      "default": 3,
///      "type": "integer",
///      "format": "uint8"
///    },
///    "type": {
///      "type": [
///        "string",
///        "null"
///      ]
///    }
///  }
///}
/// ```
/// </details>
#[derive(::serde::Deserialize, ::serde::Serialize, Clone, Debug)]
pub struct Widget {
    #[serde(rename = "display-name")]
    pub display_name: ::std::string::String,
    #[serde(default = "defaults::default_bool::<true>")]
    pub enabled: bool,
    pub id: u32,
    #[serde(rename = "retryCount", default = "defaults::default_u64::<u8, 3>")]
    pub retry_count: u8,
    #[serde(rename = "type")]
    pub type_: ::std::option::Option<::std::string::String>,
}
impl ::std::convert::From<&Widget> for Widget {
    fn from(value: &Widget) -> Self {
        value.clone()
    }
}
impl ::std::default::Default for Widget {
    fn default() -> Self {
        Widget {
            display_name: "anon".to_string(),
            enabled: Default::default(),
            id: 7_u32,
            retry_count: Default::default(),
            type_: ::std::option::Option::Some("gadget".to_string()),
        }
    }
}
/// Generation of default values for serde.
pub mod defaults {
    pub(super) fn default_bool<const V: bool>() -> bool {
        V
    }
    pub(super) fn default_u64<T, const V: u64>() -> T
    where
        T: ::std::convert::TryFrom<u64>,
        <T as ::std::convert::TryFrom<u64>>::Error: ::std::fmt::Debug,
    {
        T::try_from(V).unwrap()
    }
}
