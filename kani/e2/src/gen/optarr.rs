/// Error types.
pub mod error {
    /// Error from a `TryFrom` or `FromStr` implementation.
    pub struct ConversionError(::std::borrow::Cow<'static, str>);
    impl ::std::error::Error for ConversionError {}
    impl ::std::fmt::Display for ConversionError {
        fn fmt(
            &self,
            f: &mut ::std::fmt::Formatter<'_>,
        ) -> Result<(), ::std::fmt::Error> {
            ::std::fmt::Display::fmt(&self.0, f)
        }
    }
    impl ::std::fmt::Debug for ConversionError {
        fn fmt(
            &self,
            f: &mut ::std::fmt::Formatter<'_>,
        ) -> Result<(), ::std::fmt::Error> {
            ::std::fmt::Debug::fmt(&self.0, f)
        }
    }
    impl From<&'static str> for ConversionError {
        fn from(value: &'static str) -> Self {
            Self(value.into())
        }
    }
    impl From<String> for ConversionError {
        fn from(value: String) -> Self {
            Self(value.into())
        }
    }
}
///`Record`
///
/// <details><summary>JSON schema</summary>
///
/// ```json
///{
///  "type": "object",
///  "required": [
///    "id"
///  ],
///  "properties": {
///    "id": {
///      "type": "integer",
///      "format": "uint8"
///    },
///    "list": {
///      "type": "array",
///      "items": {
///        "type": "integer",
///        "format": "uint8"
///      }
///    },
///    "tags": {
///      "type": [
///        "array",
///        "null"
///      ],
///      "items": {
///        "type": "string"
///      }
///    }
///  }
///}
/// ```
/// </details>
#[derive(::serde::Deserialize, ::serde::Serialize, Clone, Debug)]
pub struct Record {
    pub id: u8,
    #[serde(default, skip_serializing_if = "::std::vec::Vec::is_empty")]
    pub list: ::std::vec::Vec<u8>,
    #[serde(default, skip_serializing_if = "::std::option::Option::is_none")]
    pub tags: ::std::option::Option<::std::vec::Vec<::std::string::String>>,
}
impl ::std::convert::From<&Record> for Record {
    fn from(value: &Record) -> Self {
        value.clone()
    }
}
