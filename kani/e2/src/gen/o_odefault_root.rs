/// Error types.
pub mod error {
    /// Error from a `TryFrom` or `FromStr` implementation.
    pub struct ConversionError(::std::borrow::Cow<'static, str>);
    impl ::std::error::Error for ConversionError {}
    impl ::std::fmt::Display for ConversionError {
        fn fmt(
            &self,
            f: &mut ::std::fmt::Formatter<'_>,
        ) -> Result<(), ::std::fmt::Error> {
            ::std::fmt::Display::fmt(&self.0, f)
        }
    }
    impl ::std::fmt::Debug for ConversionError {
        fn fmt(
            &self,
            f: &mut ::std::fmt::Formatter<'_>,
        ) -> Result<(), ::std::fmt::Error> {
            ::std::fmt::Debug::fmt(&self.0, f)
        }
    }
    impl From<&'static str> for ConversionError {
        fn from(value: &'static str) -> Self {
            Self(value.into())
        }
    }
    impl From<String> for ConversionError {
        fn from(value: String) -> Self {
            Self(value.into())
        }
    }
}
///`ODefault`
///
/// <details><summary>JSON schema</summary>
///
/// ```json
///{
///  "title": "ODefault",
///  "type": "object",
///  "required": [
///    "label"
///  ],
///  "properties": {
///    "count": {
///      "default": 0,
///      "type": "integer",
///      "format": "uint32",
///      "minimum": 0.0
///    },
///    "flag": {
///      "default": false,
///      "type": "boolean"
///    },
///    "label": {
///      "type": "string"
///    }
///  }
///}
/// ```
/// </details>
#[derive(::serde::Deserialize, ::serde::Serialize, Clone, Debug)]
pub struct ODefault {
    #[serde(default)]
    pub count: u32,
    #[serde(default)]
    pub flag: bool,
    pub label: ::std::string::String,
}
impl ::std::convert::From<&ODefault> for ODefault {
    fn from(value: &ODefault) -> Self {
        value.clone()
    }
}
