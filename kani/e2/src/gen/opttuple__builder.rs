/// Error types.
pub mod error {
    /// Error from a `TryFrom` or `FromStr` implementation.
    pub struct ConversionError(::std::borrow::Cow<'static, str>);
    impl ::std::error::Error for ConversionError {}
    impl ::std::fmt::Display for ConversionError {
        fn fmt(
            &self,
            f: &mut ::std::fmt::Formatter<'_>,
        ) -> Result<(), ::std::fmt::Error> {
            ::std::fmt::Display::fmt(&self.0, f)
        }
    }
    impl ::std::fmt::Debug for ConversionError {
        fn fmt(
            &self,
            f: &mut ::std::fmt::Formatter<'_>,
        ) -> Result<(), ::std::fmt::Error> {
            ::std::fmt::Debug::fmt(&self.0, f)
        }
    }
    impl From<&'static str> for ConversionError {
        fn from(value: &'static str) -> Self {
            Self(value.into())
        }
    }
    impl From<String> for ConversionError {
        fn from(value: String) -> Self {
            Self(value.into())
        }
    }
}
///`Record`
///
/// <details><summary>JSON schema</summary>
///
/// ```json
///{
///  "type": "object",
///  "required": [
///    "id"
///  ],
///  "properties": {
///    "id": {
///      "type": "integer",
///      "format": "uint8"
///    },
///    "span": {
///      "type": "array",
///      "items": [
///        {
///          "type": "integer"
///        },
///        {
///          "type": "string"
///        }
///      ],
///      "maxItems": 2,
///      "minItems": 2
///    }
///  }
///}
/// ```
/// </details>
#[derive(::serde::Deserialize, ::serde::Serialize, Clone, Debug)]
pub struct Record {
    pub id: u8,
    #[serde(default, skip_serializing_if = "::std::option::Option::is_none")]
    pub span: ::std::option::Option<(i64, ::std::string::String)>,
}
impl ::std::convert::From<&Record> for Record {
    fn from(value: &Record) -> Self {
        value.clone()
    }
}
impl Record {
    pub fn builder() -> builder::Record {
        Default::default()
    }
}
/// Types for composing complex structures.
pub mod builder {
    #[derive(Clone, Debug)]
    pub struct Record {
        id: ::std::result::Result<u8, ::std::string::String>,
        span: ::std::result::Result<
            ::std::option::Option<(i64, ::std::string::String)>,
            ::std::string::String,
        >,
    }
    impl ::std::default::Default for Record {
        fn default() -> Self {
            Self {
                id: Err("no value supplied for id".to_string()),
                span: Ok(Default::default()),
            }
        }
    }
    impl Record {
        pub fn id<T>(mut self, value: T) -> Self
        where
            T: ::std::convert::TryInto<u8>,
            T::Error: ::std::fmt::Display,
        {
            self.id = value
                .try_into()
                .map_err(|e| format!("error converting supplied value for id: {}", e));
            self
        }
        pub fn span<T>(mut self, value: T) -> Self
        where
            T: ::std::convert::TryInto<
                ::std::option::Option<(i64, ::std::string::String)>,
            >,
            T::Error: ::std::fmt::Display,
        {
            self.span = value
                .try_into()
                .map_err(|e| format!("error converting supplied value for span: {}", e));
            self
        }
    }
    impl ::std::convert::TryFrom<Record> for super::Record {
        type Error = super::error::ConversionError;
        fn try_from(
            value: Record,
        ) -> ::std::result::Result<Self, super::error::ConversionError> {
            Ok(Self {
                id: value.id?,
                span: value.span?,
            })
        }
    }
    impl ::std::convert::From<super::Record> for Record {
        fn from(value: super::Record) -> Self {
            Self {
                id: Ok(value.id),
                span: Ok(value.span),
            }
        }
    }
}
