/// Error types.
pub mod error {
    /// Error from a `TryFrom` or `FromStr` implementation.
    pub struct ConversionError(::std::borrow::Cow<'static, str>);
    impl ::std::error::Error for ConversionError {}
    impl ::std::fmt::Display for ConversionError {
        fn fmt(
            &self,
            f: &mut ::std::fmt::Formatter<'_>,
        ) -> Result<(), ::std::fmt::Error> {
            ::std::fmt::Display::fmt(&self.0, f)
        }
    }
    impl ::std::fmt::Debug for ConversionError {
        fn fmt(
            &self,
            f: &mut ::std::fmt::Formatter<'_>,
        ) -> Result<(), ::std::fmt::Error> {
            ::std::fmt::Debug::fmt(&self.0, f)
        }
    }
    impl From<&'static str> for ConversionError {
        fn from(value: &'static str) -> Self {
            Self(value.into())
        }
    }
    impl From<String> for ConversionError {
        fn from(value: String) -> Self {
            Self(value.into())
        }
    }
}
///`G`
///
/// <details><summary>JSON schema</summary>
///
/// ```json
///{
///  "type": "object",
///  "required": [
///    "a-req"
///  ],
///  "properties": {
///    "a-req": {
///      "type": "string"
///    },
///    "bOpt": {
///      "type": "string"
///    },
///    "c-def0": {
///      "default": "",
///      "type": "string"
///    }
///  }
///}
/// ```
/// </details>
#[derive(::serde::Deserialize, ::serde::Serialize, Clone, Debug)]
pub struct G {
    #[serde(rename = "a-req")]
    pub a_req: ::std::string::String,
    #[serde(
        rename = "bOpt",
        default,
        skip_serializing_if = "::std::option::Option::is_none"
    )]
    pub b_opt: ::std::option::Option<::std::string::String>,
    #[serde(rename = "c-def0", default)]
    pub c_def0: ::std::string::String,
}
impl ::std::convert::From<&G> for G {
    fn from(value: &G) -> Self {
        value.clone()
    }
}
impl G {
    pub fn builder() -> builder::G {
        Default::default()
    }
}
/// Types for composing complex structures.
pub mod builder {
    #[derive(Clone, Debug)]
    pub struct G {
        a_req: ::std::result::Result<::std::string::String, ::std::string::String>,
        b_opt: ::std::result::Result<
            ::std::option::Option<::std::string::String>,
            ::std::string::String,
        >,
        c_def0: ::std::result::Result<::std::string::String, ::std::string::String>,
    }
    impl ::std::default::Default for G {
        fn default() -> Self {
            Self {
                a_req: Err("no value supplied for a_req".to_string()),
                b_opt: Ok(Default::default()),
                c_def0: Ok(Default::default()),
            }
        }
    }
    impl G {
        pub fn a_req<T>(mut self, value: T) -> Self
        where
            T: ::std::convert::TryInto<::std::string::String>,
            T::Error: ::std::fmt::Display,
        {
            self.a_req = value
                .try_into()
                .map_err(|e| {
                    format!("error converting supplied value for a_req: {}", e)
                });
            self
        }
        pub fn b_opt<T>(mut self, value: T) -> Self
        where
            T: ::std::convert::TryInto<::std::option::Option<::std::string::String>>,
            T::Error: ::std::fmt::Display,
        {
            self.b_opt = value
                .try_into()
                .map_err(|e| {
                    format!("error converting supplied value for b_opt: {}", e)
                });
            self
        }
        pub fn c_def0<T>(mut self, value: T) -> Self
        where
            T: ::std::convert::TryInto<::std::string::String>,
            T::Error: ::std::fmt::Display,
        {
            self.c_def0 = value
                .try_into()
                .map_err(|e| {
                    format!("error converting supplied value for c_def0: {}", e)
                });
            self
        }
    }
    impl ::std::convert::TryFrom<G> for super::G {
        type Error = super::error::ConversionError;
        fn try_from(
            value: G,
        ) -> ::std::result::Result<Self, super::error::ConversionError> {
            Ok(Self {
                a_req: value.a_req?,
                b_opt: value.b_opt?,
                c_def0: value.c_def0?,
            })
        }
    }
    impl ::std::convert::From<super::G> for G {
        fn from(value: super::G) -> Self {
            Self {
                a_req: Ok(value.a_req),
                b_opt: Ok(value.b_opt),
                c_def0: Ok(value.c_def0),
            }
        }
    }
}
