/// Error types.
pub mod error {
    /// Error from a `TryFrom` or `FromStr` implementation.
    pub struct ConversionError(::std::borrow::Cow<'static, str>);
    impl ::std::error::Error for ConversionError {}
    impl ::std::fmt::Display for ConversionError {
        fn fmt(
            &self,
            f: &mut ::std::fmt::Formatter<'_>,
        ) -> Result<(), ::std::fmt::Error> {
            ::std::fmt::Display::fmt(&self.0, f)
        }
    }
    impl ::std::fmt::Debug for ConversionError {
        fn fmt(
            &self,
            f: &mut ::std::fmt::Formatter<'_>,
        ) -> Result<(), ::std::fmt::Error> {
            ::std::fmt::Debug::fmt(&self.0, f)
        }
    }
    impl From<&'static str> for ConversionError {
        fn from(value: &'static str) -> Self {
            Self(value.into())
        }
    }
    impl From<String> for ConversionError {
        fn from(value: String) -> Self {
            Self(value.into())
        }
    }
}
///`Alias`
///
/// <details><summary>JSON schema</summary>
///
/// ```json
///{
///  "type": "string"
///}
/// ```
/// </details>
#[derive(
    ::serde::Deserialize,
    ::serde::Serialize,
    Clone,
    Debug,
    Eq,
    Hash,
    Ord,
    PartialEq,
    PartialOrd
)]
#[serde(transparent)]
pub struct Alias(pub ::std::string::String);
impl ::std::ops::Deref for Alias {
    type Target = ::std::string::String;
    fn deref(&self) -> &::std::string::String {
        &self.0
    }
}
impl ::std::convert::From<Alias> for ::std::string::String {
    fn from(value: Alias) -> Self {
        value.0
    }
}
impl ::std::convert::From<&Alias> for Alias {
    fn from(value: &Alias) -> Self {
        value.clone()
    }
}
impl ::std::convert::From<::std::string::String> for Alias {
    fn from(value: ::std::string::String) -> Self {
        Self(value)
    }
}
impl ::std::str::FromStr for Alias {
    type Err = ::std::convert::Infallible;
    fn from_str(value: &str) -> ::std::result::Result<Self, Self::Err> {
        Ok(Self(value.to_string()))
    }
}
impl ::std::fmt::Display for Alias {
    fn fmt(&self, f: &mut ::std::fmt::Formatter<'_>) -> ::std::fmt::Result {
        self.0.fmt(f)
    }
}
