/// Error types.
pub mod error {
    /// Error from a `TryFrom` or `FromStr` implementation.
    pub struct ConversionError(::std::borrow::Cow<'static, str>);
    impl ::std::error::Error for ConversionError {}
    impl ::std::fmt::Display for ConversionError {
        fn fmt(
            &self,
            f: &mut ::std::fmt::Formatter<'_>,
        ) -> Result<(), ::std::fmt::Error> {
            ::std::fmt::Display::fmt(&self.0, f)
        }
    }
    impl ::std::fmt::Debug for ConversionError {
        fn fmt(
            &self,
            f: &mut ::std::fmt::Formatter<'_>,
        ) -> Result<(), ::std::fmt::Error> {
            ::std::fmt::Debug::fmt(&self.0, f)
        }
    }
    impl From<&'static str> for ConversionError {
        fn from(value: &'static str) -> Self {
            Self(value.into())
        }
    }
    impl From<String> for ConversionError {
        fn from(value: String) -> Self {
            Self(value.into())
        }
    }
}
///`Odd`
///
/// <details><summary>JSON schema</summary>
///
/// ```json
///{
///  "type": "string",
///  "enum": [
///    "a b",
///    "type",
///    "1st",
///    "ab",
///    "aB"
///  ]
///}
/// ```
/// </details>
#[derive(
    ::serde::Deserialize,
    ::serde::Serialize,
    Clone,
    Copy,
    Debug,
    Eq,
    Hash,
    Ord,
    PartialEq,
    PartialOrd
)]
pub enum Odd {
    #[serde(rename = "a b")]
    AXb,
    #[serde(rename = "type")]
    Type,
    #[serde(rename = "1st")]
    X1st,
    #[serde(rename = "ab")]
    Ab,
    #[serde(rename = "aB")]
    AB,
}
impl ::std::convert::From<&Self> for Odd {
    fn from(value: &Odd) -> Self {
        value.clone()
    }
}
impl ::std::fmt::Display for Odd {
    fn fmt(&self, f: &mut ::std::fmt::Formatter<'_>) -> ::std::fmt::Result {
        match *self {
            Self::AXb => write!(f, "a b"),
            Self::Type => write!(f, "type"),
            Self::X1st => write!(f, "1st"),
            Self::Ab => write!(f, "ab"),
            Self::AB => write!(f, "aB"),
        }
    }
}
impl ::std::str::FromStr for Odd {
    type Err = self::error::ConversionError;
    fn from_str(
        value: &str,
    ) -> ::std::result::Result<Self, self::error::ConversionError> {
        match value {
            "a b" => Ok(Self::AXb),
            "type" => Ok(Self::Type),
            "1st" => Ok(Self::X1st),
            "ab" => Ok(Self::Ab),
            "aB" => Ok(Self::AB),
            _ => Err("invalid value".into()),
        }
    }
}
impl ::std::convert::TryFrom<&str> for Odd {
    type Error = self::error::ConversionError;
    fn try_from(
        value: &str,
    ) -> ::std::result::Result<Self, self::error::ConversionError> {
        value.parse()
    }
}
impl ::std::convert::TryFrom<&::std::string::String> for Odd {
    type Error = self::error::ConversionError;
    fn try_from(
        value: &::std::string::String,
    ) -> ::std::result::Result<Self, self::error::ConversionError> {
        value.parse()
    }
}
impl ::std::convert::TryFrom<::std::string::String> for Odd {
    type Error = self::error::ConversionError;
    fn try_from(
        value: ::std::string::String,
    ) -> ::std::result::Result<Self, self::error::ConversionError> {
        value.parse()
    }
}
