/// Error types.
pub mod error {
    /// Error from a `TryFrom` or `FromStr` implementation.
    pub struct ConversionError(::std::borrow::Cow<'static, str>);
    impl ::std::error::Error for ConversionError {}
    impl ::std::fmt::Display for ConversionError {
        fn fmt(
            &self,
            f: &mut ::std::fmt::Formatter<'_>,
        ) -> Result<(), ::std::fmt::Error> {
            ::std::fmt::Display::fmt(&self.0, f)
        }
    }
    impl ::std::fmt::Debug for ConversionError {
        fn fmt(
            &self,
            f: &mut ::std::fmt::Formatter<'_>,
        ) -> Result<(), ::std::fmt::Error> {
            ::std::fmt::Debug::fmt(&self.0, f)
        }
    }
    impl From<&'static str> for ConversionError {
        fn from(value: &'static str) -> Self {
            Self(value.into())
        }
    }
    impl From<String> for ConversionError {
        fn from(value: String) -> Self {
            Self(value.into())
        }
    }
}
///`D`
///
/// <details><summary>JSON schema</summary>
///
/// ```json
///{
///  "type": "object",
///  "properties": {
///    "b": {
///      "default": true,
///      "type": "boolean"
///    },
///    "i": {
///      "default": -3,
///      "type": "integer"
///    },
///    "s": {
///      "default": "hi",
///      "type": "string"
///    },
///    "u": {
///      "default": 200,
///      "type": "integer",
///      "format": "uint8"
///    },
///    "z": {
///      "default": 0,
///      "type": "integer"
///    }
///  }
///}
/// ```
/// </details>
#[derive(::serde::Deserialize, ::serde::Serialize, Clone, Debug, PartialEq)]
pub struct D {
    #[serde(default = "defaults::default_bool::<true>")]
    pub b: bool,
    #[serde(default = "defaults::default_i64::<i64, -3>")]
    pub i: i64,
    #[serde(default = "defaults::d_s")]
    pub s: ::std::string::String,
    #[serde(default = "defaults::default_u64::<u8, 200>")]
    pub u: u8,
    #[serde(default)]
    pub z: i64,
}
impl ::std::convert::From<&D> for D {
    fn from(value: &D) -> Self {
        value.clone()
    }
}
impl ::std::default::Default for D {
    fn default() -> Self {
        Self {
            b: defaults::default_bool::<true>(),
            i: defaults::default_i64::<i64, -3>(),
            s: defaults::d_s(),
            u: defaults::default_u64::<u8, 200>(),
            z: Default::default(),
        }
    }
}
/// Generation of default values for serde.
pub mod defaults {
    pub(super) fn default_bool<const V: bool>() -> bool {
        V
    }
    pub(super) fn default_i64<T, const V: i64>() -> T
    where
        T: ::std::convert::TryFrom<i64>,
        <T as ::std::convert::TryFrom<i64>>::Error: ::std::fmt::Debug,
    {
        T::try_from(V).unwrap()
    }
    pub(super) fn default_u64<T, const V: u64>() -> T
    where
        T: ::std::convert::TryFrom<u64>,
        <T as ::std::convert::TryFrom<u64>>::Error: ::std::fmt::Debug,
    {
        T::try_from(V).unwrap()
    }
    pub(super) fn d_s() -> ::std::string::String {
        "hi".to_string()
    }
}
