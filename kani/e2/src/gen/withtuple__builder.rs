/// Error types.
pub mod error {
    /// Error from a `TryFrom` or `FromStr` implementation.
    pub struct ConversionError(::std::borrow::Cow<'static, str>);
    impl ::std::error::Error for ConversionError {}
    impl ::std::fmt::Display for ConversionError {
        fn fmt(
            &self,
            f: &mut ::std::fmt::Formatter<'_>,
        ) -> Result<(), ::std::fmt::Error> {
            ::std::fmt::Display::fmt(&self.0, f)
        }
    }
    impl ::std::fmt::Debug for ConversionError {
        fn fmt(
            &self,
            f: &mut ::std::fmt::Formatter<'_>,
        ) -> Result<(), ::std::fmt::Error> {
            ::std::fmt::Debug::fmt(&self.0, f)
        }
    }
    impl From<&'static str> for ConversionError {
        fn from(value: &'static str) -> Self {
            Self(value.into())
        }
    }
    impl From<String> for ConversionError {
        fn from(value: String) -> Self {
            Self(value.into())
        }
    }
}
///`T`
///
/// <details><summary>JSON schema</summary>
///
/// ```json
///{
///  "type": "object",
///  "required": [
///    "p"
///  ],
///  "properties": {
///    "p": {
///      "type": "array",
///      "items": [
///        {
///          "type": "integer"
///        },
///        {
///          "type": "boolean"
///        }
///      ],
///      "maxItems": 2,
///      "minItems": 2
///    },
///    "q": {
///      "type": "boolean"
///    }
///  }
///}
/// ```
/// </details>
#[derive(::serde::Deserialize, ::serde::Serialize, Clone, Debug)]
pub struct T {
    pub p: (i64, bool),
    #[serde(default, skip_serializing_if = "::std::option::Option::is_none")]
    pub q: ::std::option::Option<bool>,
}
impl ::std::convert::From<&T> for T {
    fn from(value: &T) -> Self {
        value.clone()
    }
}
impl T {
    pub fn builder() -> builder::T {
        Default::default()
    }
}
/// Types for composing complex structures.
pub mod builder {
    #[derive(Clone, Debug)]
    pub struct T {
        p: ::std::result::Result<(i64, bool), ::std::string::String>,
        q: ::std::result::Result<::std::option::Option<bool>, ::std::string::String>,
    }
    impl ::std::default::Default for T {
        fn default() -> Self {
            Self {
                p: Err("no value supplied for p".to_string()),
                q: Ok(Default::default()),
            }
        }
    }
    impl T {
        pub fn p<T>(mut self, value: T) -> Self
        where
            T: ::std::convert::TryInto<(i64, bool)>,
            T::Error: ::std::fmt::Display,
        {
            self.p = value
                .try_into()
                .map_err(|e| format!("error converting supplied value for p: {}", e));
            self
        }
        pub fn q<T>(mut self, value: T) -> Self
        where
            T: ::std::convert::TryInto<::std::option::Option<bool>>,
            T::Error: ::std::fmt::Display,
        {
            self.q = value
                .try_into()
                .map_err(|e| format!("error converting supplied value for q: {}", e));
            self
        }
    }
    impl ::std::convert::TryFrom<T> for super::T {
        type Error = super::error::ConversionError;
        fn try_from(
            value: T,
        ) -> ::std::result::Result<Self, super::error::ConversionError> {
            Ok(Self { p: value.p?, q: value.q? })
        }
    }
    impl ::std::convert::From<super::T> for T {
        fn from(value: super::T) -> Self {
            Self {
                p: Ok(value.p),
                q: Ok(value.q),
            }
        }
    }
}
