/// Error types.
pub mod error {
    /// Error from a `TryFrom` or `FromStr` implementation.
    pub struct ConversionError(::std::borrow::Cow<'static, str>);
    impl ::std::error::Error for ConversionError {}
    impl ::std::fmt::Display for ConversionError {
        fn fmt(
            &self,
            f: &mut ::std::fmt::Formatter<'_>,
        ) -> Result<(), ::std::fmt::Error> {
            ::std::fmt::Display::fmt(&self.0, f)
        }
    }
    impl ::std::fmt::Debug for ConversionError {
        fn fmt(
            &self,
            f: &mut ::std::fmt::Formatter<'_>,
        ) -> Result<(), ::std::fmt::Error> {
            ::std::fmt::Debug::fmt(&self.0, f)
        }
    }
    impl From<&'static str> for ConversionError {
        fn from(value: &'static str) -> Self {
            Self(value.into())
        }
    }
    impl From<String> for ConversionError {
        fn from(value: String) -> Self {
            Self(value.into())
        }
    }
}
///`ODeny`
///
/// <details><summary>JSON schema</summary>
///
/// ```json
///{
///  "title": "ODeny",
///  "type": "object",
///  "required": [
///    "a",
///    "b"
///  ],
///  "properties": {
///    "a": {
///      "type": "integer",
///      "format": "uint64",
///      "minimum": 0.0
///    },
///    "b": {
///      "type": "integer",
///      "format": "int64"
///    }
///  },
///  "additionalProperties": false
///}
/// ```
/// </details>
#[derive(::serde::Deserialize, ::serde::Serialize, Clone, Debug)]
#[serde(deny_unknown_fields)]
pub struct ODeny {
    pub a: u64,
    pub b: i64,
}
impl ::std::convert::From<&ODeny> for ODeny {
    fn from(value: &ODeny) -> Self {
        value.clone()
    }
}
