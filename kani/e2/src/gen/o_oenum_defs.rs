/// Error types.
pub mod error {
    /// Error from a `TryFrom` or `FromStr` implementation.
    pub struct ConversionError(::std::borrow::Cow<'static, str>);
    impl ::std::error::Error for ConversionError {}
    impl ::std::fmt::Display for ConversionError {
        fn fmt(
            &self,
            f: &mut ::std::fmt::Formatter<'_>,
        ) -> Result<(), ::std::fmt::Error> {
            ::std::fmt::Display::fmt(&self.0, f)
        }
    }
    impl ::std::fmt::Debug for ConversionError {
        fn fmt(
            &self,
            f: &mut ::std::fmt::Formatter<'_>,
        ) -> Result<(), ::std::fmt::Error> {
            ::std::fmt::Debug::fmt(&self.0, f)
        }
    }
    impl From<&'static str> for ConversionError {
        fn from(value: &'static str) -> Self {
            Self(value.into())
        }
    }
    impl From<String> for ConversionError {
        fn from(value: String) -> Self {
            Self(value.into())
        }
    }
}
///`OEnum`
///
/// <details><summary>JSON schema</summary>
///
/// ```json
///{
///  "title": "OEnum",
///  "type": "string",
///  "enum": [
///    "first-one",
///    "second-one",
///    "third"
///  ]
///}
/// ```
/// </details>
#[derive(
    ::serde::Deserialize,
    ::serde::Serialize,
    Clone,
    Copy,
    Debug,
    Eq,
    Hash,
    Ord,
    PartialEq,
    PartialOrd
)]
pub enum OEnum {
    #[serde(rename = "first-one")]
    FirstOne,
    #[serde(rename = "second-one")]
    SecondOne,
    #[serde(rename = "third")]
    Third,
}
impl ::std::convert::From<&Self> for OEnum {
    fn from(value: &OEnum) -> Self {
        value.clone()
    }
}
impl ::std::fmt::Display for OEnum {
    fn fmt(&self, f: &mut ::std::fmt::Formatter<'_>) -> ::std::fmt::Result {
        match *self {
            Self::FirstOne => write!(f, "first-one"),
            Self::SecondOne => write!(f, "second-one"),
            Self::Third => write!(f, "third"),
        }
    }
}
impl ::std::str::FromStr for OEnum {
    type Err = self::error::ConversionError;
    fn from_str(
        value: &str,
    ) -> ::std::result::Result<Self, self::error::ConversionError> {
        match value {
            "first-one" => Ok(Self::FirstOne),
            "second-one" => Ok(Self::SecondOne),
            "third" => Ok(Self::Third),
            _ => Err("invalid value".into()),
        }
    }
}
impl ::std::convert::TryFrom<&str> for OEnum {
    type Error = self::error::ConversionError;
    fn try_from(
        value: &str,
    ) -> ::std::result::Result<Self, self::error::ConversionError> {
        value.parse()
    }
}
impl ::std::convert::TryFrom<&::std::string::String> for OEnum {
    type Error = self::error::ConversionError;
    fn try_from(
        value: &::std::string::String,
    ) -> ::std::result::Result<Self, self::error::ConversionError> {
        value.parse()
    }
}
impl ::std::convert::TryFrom<::std::string::String> for OEnum {
    type Error = self::error::ConversionError;
    fn try_from(
        value: ::std::string::String,
    ) -> ::std::result::Result<Self, self::error::ConversionError> {
        value.parse()
    }
}
