/// Error types.
pub mod error {
    /// Error from a `TryFrom` or `FromStr` implementation.
    pub struct ConversionError(::std::borrow::Cow<'static, str>);
    impl ::std::error::Error for ConversionError {}
    impl ::std::fmt::Display for ConversionError {
        fn fmt(
            &self,
            f: &mut ::std::fmt::Formatter<'_>,
        ) -> Result<(), ::std::fmt::Error> {
            ::std::fmt::Display::fmt(&self.0, f)
        }
    }
    impl ::std::fmt::Debug for ConversionError {
        fn fmt(
            &self,
            f: &mut ::std::fmt::Formatter<'_>,
        ) -> Result<(), ::std::fmt::Error> {
            ::std::fmt::Debug::fmt(&self.0, f)
        }
    }
    impl From<&'static str> for ConversionError {
        fn from(value: &'static str) -> Self {
            Self(value.into())
        }
    }
    impl From<String> for ConversionError {
        fn from(value: String) -> Self {
            Self(value.into())
        }
    }
}
///`G`
///
/// <details><summary>JSON schema</summary>
///
/// ```json
///{
///  "type": "object",
///  "required": [
///    "a-req"
///  ],
///  "properties": {
///    "a-req": {
///      "type": "string"
///    },
///    "dDef": {
///      "default": "x y",
///      "type": "string"
///    },
///    "e-null": {
///      "type": [
///        "string",
///        "null"
///      ]
///    },
///    "fNullDef": {
///      "default": "x y",
///      "type": [
///        "string",
///        "null"
///      ]
///    }
///  }
///}
/// ```
/// </details>
#[derive(::serde::Deserialize, ::serde::Serialize, Clone, Debug)]
pub struct G {
    #[serde(rename = "a-req")]
    pub a_req: ::std::string::String,
    #[serde(rename = "dDef", default = "defaults::g_d_def")]
    pub d_def: ::std::string::String,
    #[serde(
        rename = "e-null",
        default,
        skip_serializing_if = "::std::option::Option::is_none"
    )]
    pub e_null: ::std::option::Option<::std::string::String>,
    #[serde(rename = "fNullDef", default = "defaults::g_f_null_def")]
    pub f_null_def: ::std::option::Option<::std::string::String>,
}
impl ::std::convert::From<&G> for G {
    fn from(value: &G) -> Self {
        value.clone()
    }
}
impl G {
    pub fn builder() -> builder::G {
        Default::default()
    }
}
/// Types for composing complex structures.
pub mod builder {
    #[derive(Clone, Debug)]
    pub struct G {
        a_req: ::std::result::Result<::std::string::String, ::std::string::String>,
        d_def: ::std::result::Result<::std::string::String, ::std::string::String>,
        e_null: ::std::result::Result<
            ::std::option::Option<::std::string::String>,
            ::std::string::String,
        >,
        f_null_def: ::std::result::Result<
            ::std::option::Option<::std::string::String>,
            ::std::string::String,
        >,
    }
    impl ::std::default::Default for G {
        fn default() -> Self {
            Self {
                a_req: Err("no value supplied for a_req".to_string()),
                d_def: Ok(super::defaults::g_d_def()),
                e_null: Ok(Default::default()),
                f_null_def: Ok(super::defaults::g_f_null_def()),
            }
        }
    }
    impl G {
        pub fn a_req<T>(mut self, value: T) -> Self
        where
            T: ::std::convert::TryInto<::std::string::String>,
            T::Error: ::std::fmt::Display,
        {
            self.a_req = value
                .try_into()
                .map_err(|e| {
                    format!("error converting supplied value for a_req: {}", e)
                });
            self
        }
        pub fn d_def<T>(mut self, value: T) -> Self
        where
            T: ::std::convert::TryInto<::std::string::String>,
            T::Error: ::std::fmt::Display,
        {
            self.d_def = value
                .try_into()
                .map_err(|e| {
                    format!("error converting supplied value for d_def: {}", e)
                });
            self
        }
        pub fn e_null<T>(mut self, value: T) -> Self
        where
            T: ::std::convert::TryInto<::std::option::Option<::std::string::String>>,
            T::Error: ::std::fmt::Display,
        {
            self.e_null = value
                .try_into()
                .map_err(|e| {
                    format!("error converting supplied value for e_null: {}", e)
                });
            self
        }
        pub fn f_null_def<T>(mut self, value: T) -> Self
        where
            T: ::std::convert::TryInto<::std::option::Option<::std::string::String>>,
            T::Error: ::std::fmt::Display,
        {
            self.f_null_def = value
                .try_into()
                .map_err(|e| {
                    format!("error converting supplied value for f_null_def: {}", e)
                });
            self
        }
    }
    impl ::std::convert::TryFrom<G> for super::G {
        type Error = super::error::ConversionError;
        fn try_from(
            value: G,
        ) -> ::std::result::Result<Self, super::error::ConversionError> {
            Ok(Self {
                a_req: value.a_req?,
                d_def: value.d_def?,
                e_null: value.e_null?,
                f_null_def: value.f_null_def?,
            })
        }
    }
    impl ::std::convert::From<super::G> for G {
        fn from(value: super::G) -> Self {
            Self {
                a_req: Ok(value.a_req),
                d_def: Ok(value.d_def),
                e_null: Ok(value.e_null),
                f_null_def: Ok(value.f_null_def),
            }
        }
    }
}
/// Generation of default values for serde.
pub mod defaults {
    pub(super) fn g_d_def() -> ::std::string::String {
        "x y".to_string()
    }
    pub(super) fn g_f_null_def() -> ::std::option::Option<::std::string::String> {
        ::std::option::Option::Some("x y".to_string())
    }
}
