/// Error types.
pub mod error {
    /// Error from a `TryFrom` or `FromStr` implementation.
    pub struct ConversionError(::std::borrow::Cow<'static, str>);
    impl ::std::error::Error for ConversionError {}
    impl ::std::fmt::Display for ConversionError {
        fn fmt(
            &self,
            f: &mut ::std::fmt::Formatter<'_>,
        ) -> Result<(), ::std::fmt::Error> {
            ::std::fmt::Display::fmt(&self.0, f)
        }
    }
    impl ::std::fmt::Debug for ConversionError {
        fn fmt(
            &self,
            f: &mut ::std::fmt::Formatter<'_>,
        ) -> Result<(), ::std::fmt::Error> {
            ::std::fmt::Debug::fmt(&self.0, f)
        }
    }
    impl From<&'static str> for ConversionError {
        fn from(value: &'static str) -> Self {
            Self(value.into())
        }
    }
    impl From<String> for ConversionError {
        fn from(value: String) -> Self {
            Self(value.into())
        }
    }
}
///`Ints`
///
/// <details><summary>JSON schema</summary>
///
/// ```json
///{
///  "type": "object",
///  "required": [
///    "a",
///    "b",
///    "c",
///    "d"
///  ],
///  "properties": {
///    "a": {
///      "type": "integer",
///      "format": "int8"
///    },
///    "b": {
///      "type": "integer",
///      "format": "uint16"
///    },
///    "c": {
///      "type": "integer",
///      "format": "int64"
///    },
///    "d": {
///      "type": "integer",
///      "format": "uint64"
///    }
///  }
///}
/// ```
/// </details>
#[derive(::serde::Deserialize, ::serde::Serialize, Clone, Debug)]
pub struct Ints {
    pub a: i8,
    pub b: u16,
    pub c: i64,
    pub d: u64,
}
impl ::std::convert::From<&Ints> for Ints {
    fn from(value: &Ints) -> Self {
        value.clone()
    }
}
impl Ints {
    pub fn builder() -> builder::Ints {
        Default::default()
    }
}
/// Types for composing complex structures.
pub mod builder {
    #[derive(Clone, Debug)]
    pub struct Ints {
        a: ::std::result::Result<i8, ::std::string::String>,
        b: ::std::result::Result<u16, ::std::string::String>,
        c: ::std::result::Result<i64, ::std::string::String>,
        d: ::std::result::Result<u64, ::std::string::String>,
    }
    impl ::std::default::Default for Ints {
        fn default() -> Self {
            Self {
                a: Err("no value supplied for a".to_string()),
                b: Err("no value supplied for b".to_string()),
                c: Err("no value supplied for c".to_string()),
                d: Err("no value supplied for d".to_string()),
            }
        }
    }
    impl Ints {
        pub fn a<T>(mut self, value: T) -> Self
        where
            T: ::std::convert::TryInto<i8>,
            T::Error: ::std::fmt::Display,
        {
            self.a = value
                .try_into()
                .map_err(|e| format!("error converting supplied value for a: {}", e));
            self
        }
        pub fn b<T>(mut self, value: T) -> Self
        where
            T: ::std::convert::TryInto<u16>,
            T::Error: ::std::fmt::Display,
        {
            self.b = value
                .try_into()
                .map_err(|e| format!("error converting supplied value for b: {}", e));
            self
        }
        pub fn c<T>(mut self, value: T) -> Self
        where
            T: ::std::convert::TryInto<i64>,
            T::Error: ::std::fmt::Display,
        {
            self.c = value
                .try_into()
                .map_err(|e| format!("error converting supplied value for c: {}", e));
            self
        }
        pub fn d<T>(mut self, value: T) -> Self
        where
            T: ::std::convert::TryInto<u64>,
            T::Error: ::std::fmt::Display,
        {
            self.d = value
                .try_into()
                .map_err(|e| format!("error converting supplied value for d: {}", e));
            self
        }
    }
    impl ::std::convert::TryFrom<Ints> for super::Ints {
        type Error = super::error::ConversionError;
        fn try_from(
            value: Ints,
        ) -> ::std::result::Result<Self, super::error::ConversionError> {
            Ok(Self {
                a: value.a?,
                b: value.b?,
                c: value.c?,
                d: value.d?,
            })
        }
    }
    impl ::std::convert::From<super::Ints> for Ints {
        fn from(value: super::Ints) -> Self {
            Self {
                a: Ok(value.a),
                b: Ok(value.b),
                c: Ok(value.c),
                d: Ok(value.d),
            }
        }
    }
}
