/// Error types.
pub mod error {
    /// Error from a `TryFrom` or `FromStr` implementation.
    pub struct ConversionError(::std::borrow::Cow<'static, str>);
    impl ::std::error::Error for ConversionError {}
    impl ::std::fmt::Display for ConversionError {
        fn fmt(
            &self,
            f: &mut ::std::fmt::Formatter<'_>,
        ) -> Result<(), ::std::fmt::Error> {
            ::std::fmt::Display::fmt(&self.0, f)
        }
    }
    impl ::std::fmt::Debug for ConversionError {
        fn fmt(
            &self,
            f: &mut ::std::fmt::Formatter<'_>,
        ) -> Result<(), ::std::fmt::Error> {
            ::std::fmt::Debug::fmt(&self.0, f)
        }
    }
    impl From<&'static str> for ConversionError {
        fn from(value: &'static str) -> Self {
            Self(value.into())
        }
    }
    impl From<String> for ConversionError {
        fn from(value: String) -> Self {
            Self(value.into())
        }
    }
}
///`ONewtype`
///
/// <details><summary>JSON schema</summary>
///
/// ```json
///{
///  "title": "ONewtype",
///  "type": "integer",
///  "format": "int16"
///}
/// ```
/// </details>
#[derive(::serde::Deserialize, ::serde::Serialize, Clone, Debug)]
#[serde(transparent)]
pub struct ONewtype(pub i16);
impl ::std::ops::Deref for ONewtype {
    type Target = i16;
    fn deref(&self) -> &i16 {
        &self.0
    }
}
impl ::std::convert::From<ONewtype> for i16 {
    fn from(value: ONewtype) -> Self {
        value.0
    }
}
impl ::std::convert::From<&ONewtype> for ONewtype {
    fn from(value: &ONewtype) -> Self {
        value.clone()
    }
}
impl ::std::convert::From<i16> for ONewtype {
    fn from(value: i16) -> Self {
        Self(value)
    }
}
impl ::std::str::FromStr for ONewtype {
    type Err = <i16 as ::std::str::FromStr>::Err;
    fn from_str(value: &str) -> ::std::result::Result<Self, Self::Err> {
        Ok(Self(value.parse()?))
    }
}
impl ::std::convert::TryFrom<&str> for ONewtype {
    type Error = <i16 as ::std::str::FromStr>::Err;
    fn try_from(value: &str) -> ::std::result::Result<Self, Self::Error> {
        value.parse()
    }
}
impl ::std::convert::TryFrom<&String> for ONewtype {
    type Error = <i16 as ::std::str::FromStr>::Err;
    fn try_from(value: &String) -> ::std::result::Result<Self, Self::Error> {
        value.parse()
    }
}
impl ::std::convert::TryFrom<String> for ONewtype {
    type Error = <i16 as ::std::str::FromStr>::Err;
    fn try_from(value: String) -> ::std::result::Result<Self, Self::Error> {
        value.parse()
    }
}
impl ::std::fmt::Display for ONewtype {
    fn fmt(&self, f: &mut ::std::fmt::Formatter<'_>) -> ::std::fmt::Result {
        self.0.fmt(f)
    }
}
