/// Error types.
pub mod error {
    /// Error from a `TryFrom` or `FromStr` implementation.
    pub struct ConversionError(::std::borrow::Cow<'static, str>);
    impl ::std::error::Error for ConversionError {}
    impl ::std::fmt::Display for ConversionError {
        fn fmt(
            &self,
            f: &mut ::std::fmt::Formatter<'_>,
        ) -> Result<(), ::std::fmt::Error> {
            ::std::fmt::Display::fmt(&self.0, f)
        }
    }
    impl ::std::fmt::Debug for ConversionError {
        fn fmt(
            &self,
            f: &mut ::std::fmt::Formatter<'_>,
        ) -> Result<(), ::std::fmt::Error> {
            ::std::fmt::Debug::fmt(&self.0, f)
        }
    }
    impl From<&'static str> for ConversionError {
        fn from(value: &'static str) -> Self {
            Self(value.into())
        }
    }
    impl From<String> for ConversionError {
        fn from(value: String) -> Self {
            Self(value.into())
        }
    }
}
///`G`
///
/// <details><summary>JSON schema</summary>
///
/// ```json
///{
///  "type": "object",
///  "required": [
///    "a-req"
///  ],
///  "properties": {
///    "a-req": {
///      "type": "string"
///    },
///    "bOpt": {
///      "type": "string"
///    },
///    "c-def0": {
///      "default": "",
///      "type": "string"
///    }
///  }
///}
/// ```
/// </details>
#[derive(::serde::Deserialize, ::serde::Serialize, Clone, Debug)]
pub struct G {
    #[serde(rename = "a-req")]
    pub a_req: ::std::string::String,
    #[serde(
        rename = "bOpt",
        default,
        skip_serializing_if = "::std::option::Option::is_none"
    )]
    pub b_opt: ::std::option::Option<::std::string::String>,
    #[serde(rename = "c-def0", default)]
    pub c_def0: ::std::string::String,
}
impl ::std::convert::From<&G> for G {
    fn from(value: &G) -> Self {
        value.clone()
    }
}
///`Renamed`
///
/// <details><summary>JSON schema</summary>
///
/// ```json
///{
///  "type": "object",
///  "properties": {
///    "q": {
///      "type": "boolean"
///    }
///  }
///}
/// ```
/// </details>
#[derive(::serde::Deserialize, ::serde::Serialize, Clone, Debug, PartialEq)]
pub struct Renamed {
    #[serde(default, skip_serializing_if = "::std::option::Option::is_none")]
    pub q: ::std::option::Option<bool>,
}
impl ::std::convert::From<&Renamed> for Renamed {
    fn from(value: &Renamed) -> Self {
        value.clone()
    }
}
impl ::std::default::Default for Renamed {
    fn default() -> Self {
        Self { q: Default::default() }
    }
}
