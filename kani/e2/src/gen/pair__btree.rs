/// Error types.
pub mod error {
    /// Error from a `TryFrom` or `FromStr` implementation.
    pub struct ConversionError(::std::borrow::Cow<'static, str>);
    impl ::std::error::Error for ConversionError {}
    impl ::std::fmt::Display for ConversionError {
        fn fmt(
            &self,
            f: &mut ::std::fmt::Formatter<'_>,
        ) -> Result<(), ::std::fmt::Error> {
            ::std::fmt::Display::fmt(&self.0, f)
        }
    }
    impl ::std::fmt::Debug for ConversionError {
        fn fmt(
            &self,
            f: &mut ::std::fmt::Formatter<'_>,
        ) -> Result<(), ::std::fmt::Error> {
            ::std::fmt::Debug::fmt(&self.0, f)
        }
    }
    impl From<&'static str> for ConversionError {
        fn from(value: &'static str) -> Self {
            Self(value.into())
        }
    }
    impl From<String> for ConversionError {
        fn from(value: String) -> Self {
            Self(value.into())
        }
    }
}
///`Pair`
///
/// <details><summary>JSON schema</summary>
///
/// ```json
///{
///  "type": "array",
///  "items": [
///    {
///      "type": "integer"
///    },
///    {
///      "type": "boolean"
///    }
///  ],
///  "maxItems": 2,
///  "minItems": 2
///}
/// ```
/// </details>
#[derive(::serde::Deserialize, ::serde::Serialize, Clone, Debug)]
#[serde(transparent)]
pub struct Pair(pub (i64, bool));
impl ::std::ops::Deref for Pair {
    type Target = (i64, bool);
    fn deref(&self) -> &(i64, bool) {
        &self.0
    }
}
impl ::std::convert::From<Pair> for (i64, bool) {
    fn from(value: Pair) -> Self {
        value.0
    }
}
impl ::std::convert::From<&Pair> for Pair {
    fn from(value: &Pair) -> Self {
        value.clone()
    }
}
impl ::std::convert::From<(i64, bool)> for Pair {
    fn from(value: (i64, bool)) -> Self {
        Self(value)
    }
}
