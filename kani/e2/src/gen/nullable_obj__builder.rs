/// Error types.
pub mod error {
    /// Error from a `TryFrom` or `FromStr` implementation.
    pub struct ConversionError(::std::borrow::Cow<'static, str>);
    impl ::std::error::Error for ConversionError {}
    impl ::std::fmt::Display for ConversionError {
        fn fmt(
            &self,
            f: &mut ::std::fmt::Formatter<'_>,
        ) -> Result<(), ::std::fmt::Error> {
            ::std::fmt::Display::fmt(&self.0, f)
        }
    }
    impl ::std::fmt::Debug for ConversionError {
        fn fmt(
            &self,
            f: &mut ::std::fmt::Formatter<'_>,
        ) -> Result<(), ::std::fmt::Error> {
            ::std::fmt::Debug::fmt(&self.0, f)
        }
    }
    impl From<&'static str> for ConversionError {
        fn from(value: &'static str) -> Self {
            Self(value.into())
        }
    }
    impl From<String> for ConversionError {
        fn from(value: String) -> Self {
            Self(value.into())
        }
    }
}
///`I`
///
/// <details><summary>JSON schema</summary>
///
/// ```json
///{
///  "type": "object",
///  "required": [
///    "k"
///  ],
///  "properties": {
///    "k": {
///      "type": "boolean"
///    }
///  }
///}
/// ```
/// </details>
#[derive(::serde::Deserialize, ::serde::Serialize, Clone, Debug)]
pub struct I {
    pub k: bool,
}
impl ::std::convert::From<&I> for I {
    fn from(value: &I) -> Self {
        value.clone()
    }
}
impl I {
    pub fn builder() -> builder::I {
        Default::default()
    }
}
///`N`
///
/// <details><summary>JSON schema</summary>
///
/// ```json
///{
///  "type": "object",
///  "required": [
///    "a"
///  ],
///  "properties": {
///    "a": {
///      "type": [
///        "integer",
///        "null"
///      ]
///    },
///    "b": {
///      "oneOf": [
///        {
///          "$ref": "#/definitions/I"
///        },
///        {
///          "type": "null"
///        }
///      ]
///    }
///  }
///}
/// ```
/// </details>
#[derive(::serde::Deserialize, ::serde::Serialize, Clone, Debug)]
pub struct N {
    pub a: ::std::option::Option<i64>,
    #[serde(default, skip_serializing_if = "::std::option::Option::is_none")]
    pub b: ::std::option::Option<I>,
}
impl ::std::convert::From<&N> for N {
    fn from(value: &N) -> Self {
        value.clone()
    }
}
impl N {
    pub fn builder() -> builder::N {
        Default::default()
    }
}
/// Types for composing complex structures.
pub mod builder {
    #[derive(Clone, Debug)]
    pub struct I {
        k: ::std::result::Result<bool, ::std::string::String>,
    }
    impl ::std::default::Default for I {
        fn default() -> Self {
            Self {
                k: Err("no value supplied for k".to_string()),
            }
        }
    }
    impl I {
        pub fn k<T>(mut self, value: T) -> Self
        where
            T: ::std::convert::TryInto<bool>,
            T::Error: ::std::fmt::Display,
        {
            self.k = value
                .try_into()
                .map_err(|e| format!("error converting supplied value for k: {}", e));
            self
        }
    }
    impl ::std::convert::TryFrom<I> for super::I {
        type Error = super::error::ConversionError;
        fn try_from(
            value: I,
        ) -> ::std::result::Result<Self, super::error::ConversionError> {
            Ok(Self { k: value.k? })
        }
    }
    impl ::std::convert::From<super::I> for I {
        fn from(value: super::I) -> Self {
            Self { k: Ok(value.k) }
        }
    }
    #[derive(Clone, Debug)]
    pub struct N {
        a: ::std::result::Result<::std::option::Option<i64>, ::std::string::String>,
        b: ::std::result::Result<::std::option::Option<super::I>, ::std::string::String>,
    }
    impl ::std::default::Default for N {
        fn default() -> Self {
            Self {
                a: Err("no value supplied for a".to_string()),
                b: Ok(Default::default()),
            }
        }
    }
    impl N {
        pub fn a<T>(mut self, value: T) -> Self
        where
            T: ::std::convert::TryInto<::std::option::Option<i64>>,
            T::Error: ::std::fmt::Display,
        {
            self.a = value
                .try_into()
                .map_err(|e| format!("error converting supplied value for a: {}", e));
            self
        }
        pub fn b<T>(mut self, value: T) -> Self
        where
            T: ::std::convert::TryInto<::std::option::Option<super::I>>,
            T::Error: ::std::fmt::Display,
        {
            self.b = value
                .try_into()
                .map_err(|e| format!("error converting supplied value for b: {}", e));
            self
        }
    }
    impl ::std::convert::TryFrom<N> for super::N {
        type Error = super::error::ConversionError;
        fn try_from(
            value: N,
        ) -> ::std::result::Result<Self, super::error::ConversionError> {
            Ok(Self { a: value.a?, b: value.b? })
        }
    }
    impl ::std::convert::From<super::N> for N {
        fn from(value: super::N) -> Self {
            Self {
                a: Ok(value.a),
                b: Ok(value.b),
            }
        }
    }
}
