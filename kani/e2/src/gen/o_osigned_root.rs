/// Error types.
pub mod error {
    /// Error from a `TryFrom` or `FromStr` implementation.
    pub struct ConversionError(::std::borrow::Cow<'static, str>);
    impl ::std::error::Error for ConversionError {}
    impl ::std::fmt::Display for ConversionError {
        fn fmt(
            &self,
            f: &mut ::std::fmt::Formatter<'_>,
        ) -> Result<(), ::std::fmt::Error> {
            ::std::fmt::Display::fmt(&self.0, f)
        }
    }
    impl ::std::fmt::Debug for ConversionError {
        fn fmt(
            &self,
            f: &mut ::std::fmt::Formatter<'_>,
        ) -> Result<(), ::std::fmt::Error> {
            ::std::fmt::Debug::fmt(&self.0, f)
        }
    }
    impl From<&'static str> for ConversionError {
        fn from(value: &'static str) -> Self {
            Self(value.into())
        }
    }
    impl From<String> for ConversionError {
        fn from(value: String) -> Self {
            Self(value.into())
        }
    }
}
///`OSigned`
///
/// <details><summary>JSON schema</summary>
///
/// ```json
///{
///  "title": "OSigned",
///  "type": "object",
///  "required": [
///    "d",
///    "s"
///  ],
///  "properties": {
///    "d": {
///      "type": "integer",
///      "format": "int16",
///      "not": {
///        "const": 0
///      }
///    },
///    "m": {
///      "type": [
///        "integer",
///        "null"
///      ],
///      "format": "int32",
///      "not": {
///        "const": 0
///      }
///    },
///    "s": {
///      "type": "integer",
///      "format": "int8"
///    }
///  }
///}
/// ```
/// </details>
#[derive(::serde::Deserialize, ::serde::Serialize, Clone, Debug)]
pub struct OSigned {
    pub d: i16,
    #[serde(default, skip_serializing_if = "::std::option::Option::is_none")]
    pub m: ::std::option::Option<i32>,
    pub s: i8,
}
impl ::std::convert::From<&OSigned> for OSigned {
    fn from(value: &OSigned) -> Self {
        value.clone()
    }
}
