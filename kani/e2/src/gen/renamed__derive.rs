/// Error types.
pub mod error {
    /// Error from a `TryFrom` or `FromStr` implementation.
    pub struct ConversionError(::std::borrow::Cow<'static, str>);
    impl ::std::error::Error for ConversionError {}
    impl ::std::fmt::Display for ConversionError {
        fn fmt(
            &self,
            f: &mut ::std::fmt::Formatter<'_>,
        ) -> Result<(), ::std::fmt::Error> {
            ::std::fmt::Display::fmt(&self.0, f)
        }
    }
    impl ::std::fmt::Debug for ConversionError {
        fn fmt(
            &self,
            f: &mut ::std::fmt::Formatter<'_>,
        ) -> Result<(), ::std::fmt::Error> {
            ::std::fmt::Debug::fmt(&self.0, f)
        }
    }
    impl From<&'static str> for ConversionError {
        fn from(value: &'static str) -> Self {
            Self(value.into())
        }
    }
    impl From<String> for ConversionError {
        fn from(value: String) -> Self {
            Self(value.into())
        }
    }
}
///`Account`
///
/// <details><summary>JSON schema</summary>
///
/// ```json
///{
///  "type": "object",
///  "required": [
///    "user-id"
///  ],
///  "properties": {
///    "display-name": {
///      "default": "",
///      "type": "string"
///    },
///    "isActive": {
///      "default": false,
///      "type": "boolean"
///    },
///    "maxSize": {
///      "type": "integer",
///      "format": "uint8"
///    },
///    "min-level": {
///      "default": 3,
///      "type": "integer"
///    },
///    "retry-count": {
///      "default": 0,
///      "type": "integer"
///    },
///    "user-id": {
///      "type": "string"
///    }
///  }
///}
/// ```
/// </details>
#[derive(::serde::Deserialize, ::serde::Serialize, Clone, Debug, PartialEq)]
pub struct Account {
    #[serde(rename = "display-name", default)]
    pub display_name: ::std::string::String,
    #[serde(rename = "isActive", default)]
    pub is_active: bool,
    #[serde(
        rename = "maxSize",
        default,
        skip_serializing_if = "::std::option::Option::is_none"
    )]
    pub max_size: ::std::option::Option<u8>,
    #[serde(rename = "min-level", default = "defaults::default_u64::<i64, 3>")]
    pub min_level: i64,
    #[serde(rename = "retry-count", default)]
    pub retry_count: i64,
    #[serde(rename = "user-id")]
    pub user_id: ::std::string::String,
}
impl ::std::convert::From<&Account> for Account {
    fn from(value: &Account) -> Self {
        value.clone()
    }
}
/// Generation of default values for serde.
pub mod defaults {
    pub(super) fn default_u64<T, const V: u64>() -> T
    where
        T: ::std::convert::TryFrom<u64>,
        <T as ::std::convert::TryFrom<u64>>::Error: ::std::fmt::Debug,
    {
        T::try_from(V).unwrap()
    }
}
