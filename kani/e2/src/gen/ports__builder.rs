/// Error types.
pub mod error {
    /// Error from a `TryFrom` or `FromStr` implementation.
    pub struct ConversionError(::std::borrow::Cow<'static, str>);
    impl ::std::error::Error for ConversionError {}
    impl ::std::fmt::Display for ConversionError {
        fn fmt(
            &self,
            f: &mut ::std::fmt::Formatter<'_>,
        ) -> Result<(), ::std::fmt::Error> {
            ::std::fmt::Display::fmt(&self.0, f)
        }
    }
    impl ::std::fmt::Debug for ConversionError {
        fn fmt(
            &self,
            f: &mut ::std::fmt::Formatter<'_>,
        ) -> Result<(), ::std::fmt::Error> {
            ::std::fmt::Debug::fmt(&self.0, f)
        }
    }
    impl From<&'static str> for ConversionError {
        fn from(value: &'static str) -> Self {
            Self(value.into())
        }
    }
    impl From<String> for ConversionError {
        fn from(value: String) -> Self {
            Self(value.into())
        }
    }
}
///`Listener`
///
/// <details><summary>JSON schema</summary>
///
/// ```json
///{
///  "type": "object",
///  "required": [
///    "port"
///  ],
///  "properties": {
///    "backlog": {
///      "type": "integer",
///      "maximum": 4096.0,
///      "exclusiveMinimum": 0.0
///    },
///    "big": {
///      "type": "integer",
///      "maximum": 4294967295.0,
///      "minimum": 0.0
///    },
///    "level": {
///      "type": "integer",
///      "maximum": 127.0,
///      "minimum": -128.0
///    },
///    "port": {
///      "type": "integer",
///      "maximum": 65535.0,
///      "minimum": 1.0
///    },
///    "workers": {
///      "type": [
///        "integer",
///        "null"
///      ],
///      "maximum": 1024.0,
///      "minimum": 1.0
///    }
///  }
///}
/// ```
/// </details>
#[derive(::serde::Deserialize, ::serde::Serialize, Clone, Debug)]
pub struct Listener {
    #[serde(default, skip_serializing_if = "::std::option::Option::is_none")]
    pub backlog: ::std::option::Option<::std::num::NonZeroU64>,
    #[serde(default, skip_serializing_if = "::std::option::Option::is_none")]
    pub big: ::std::option::Option<u32>,
    #[serde(default, skip_serializing_if = "::std::option::Option::is_none")]
    pub level: ::std::option::Option<i8>,
    pub port: ::std::num::NonZeroU64,
    #[serde(default, skip_serializing_if = "::std::option::Option::is_none")]
    pub workers: ::std::option::Option<::std::num::NonZeroU64>,
}
impl ::std::convert::From<&Listener> for Listener {
    fn from(value: &Listener) -> Self {
        value.clone()
    }
}
impl Listener {
    pub fn builder() -> builder::Listener {
        Default::default()
    }
}
/// Types for composing complex structures.
pub mod builder {
    #[derive(Clone, Debug)]
    pub struct Listener {
        backlog: ::std::result::Result<
            ::std::option::Option<::std::num::NonZeroU64>,
            ::std::string::String,
        >,
        big: ::std::result::Result<::std::option::Option<u32>, ::std::string::String>,
        level: ::std::result::Result<::std::option::Option<i8>, ::std::string::String>,
        port: ::std::result::Result<::std::num::NonZeroU64, ::std::string::String>,
        workers: ::std::result::Result<
            ::std::option::Option<::std::num::NonZeroU64>,
            ::std::string::String,
        >,
    }
    impl ::std::default::Default for Listener {
        fn default() -> Self {
            Self {
                backlog: Ok(Default::default()),
                big: Ok(Default::default()),
                level: Ok(Default::default()),
                port: Err("no value supplied for port".to_string()),
                workers: Ok(Default::default()),
            }
        }
    }
    impl Listener {
        pub fn backlog<T>(mut self, value: T) -> Self
        where
            T: ::std::convert::TryInto<::std::option::Option<::std::num::NonZeroU64>>,
            T::Error: ::std::fmt::Display,
        {
            self.backlog = value
                .try_into()
                .map_err(|e| {
                    format!("error converting supplied value for backlog: {}", e)
                });
            self
        }
        pub fn big<T>(mut self, value: T) -> Self
        where
            T: ::std::convert::TryInto<::std::option::Option<u32>>,
            T::Error: ::std::fmt::Display,
        {
            self.big = value
                .try_into()
                .map_err(|e| format!("error converting supplied value for big: {}", e));
            self
        }
        pub fn level<T>(mut self, value: T) -> Self
        where
            T: ::std::convert::TryInto<::std::option::Option<i8>>,
            T::Error: ::std::fmt::Display,
        {
            self.level = value
                .try_into()
                .map_err(|e| {
                    format!("error converting supplied value for level: {}", e)
                });
            self
        }
        pub fn port<T>(mut self, value: T) -> Self
        where
            T: ::std::convert::TryInto<::std::num::NonZeroU64>,
            T::Error: ::std::fmt::Display,
        {
            self.port = value
                .try_into()
                .map_err(|e| format!("error converting supplied value for port: {}", e));
            self
        }
        pub fn workers<T>(mut self, value: T) -> Self
        where
            T: ::std::convert::TryInto<::std::option::Option<::std::num::NonZeroU64>>,
            T::Error: ::std::fmt::Display,
        {
            self.workers = value
                .try_into()
                .map_err(|e| {
                    format!("error converting supplied value for workers: {}", e)
                });
            self
        }
    }
    impl ::std::convert::TryFrom<Listener> for super::Listener {
        type Error = super::error::ConversionError;
        fn try_from(
            value: Listener,
        ) -> ::std::result::Result<Self, super::error::ConversionError> {
            Ok(Self {
                backlog: value.backlog?,
                big: value.big?,
                level: value.level?,
                port: value.port?,
                workers: value.workers?,
            })
        }
    }
    impl ::std::convert::From<super::Listener> for Listener {
        fn from(value: super::Listener) -> Self {
            Self {
                backlog: Ok(value.backlog),
                big: Ok(value.big),
                level: Ok(value.level),
                port: Ok(value.port),
                workers: Ok(value.workers),
            }
        }
    }
}
