/// Error types.
pub mod error {
    /// Error from a `TryFrom` or `FromStr` implementation.
    pub struct ConversionError(::std::borrow::Cow<'static, str>);
    impl ::std::error::Error for ConversionError {}
    impl ::std::fmt::Display for ConversionError {
        fn fmt(
            &self,
            f: &mut ::std::fmt::Formatter<'_>,
        ) -> Result<(), ::std::fmt::Error> {
            ::std::fmt::Display::fmt(&self.0, f)
        }
    }
    impl ::std::fmt::Debug for ConversionError {
        fn fmt(
            &self,
            f: &mut ::std::fmt::Formatter<'_>,
        ) -> Result<(), ::std::fmt::Error> {
            ::std::fmt::Debug::fmt(&self.0, f)
        }
    }
    impl From<&'static str> for ConversionError {
        fn from(value: &'static str) -> Self {
            Self(value.into())
        }
    }
    impl From<String> for ConversionError {
        fn from(value: String) -> Self {
            Self(value.into())
        }
    }
}
///`G`
///
/// <details><summary>JSON schema</summary>
///
/// ```json
///{
///  "type": "object",
///  "required": [
///    "a-req"
///  ],
///  "properties": {
///    "a-req": {
///      "type": "string"
///    },
///    "dDef": {
///      "default": "x y",
///      "type": "string"
///    },
///    "e-null": {
///      "type": [
///        "string",
///        "null"
///      ]
///    },
///    "fNullDef": {
///      "default": "x y",
///      "type": [
///        "string",
///        "null"
///      ]
///    }
///  }
///}
/// ```
/// </details>
#[derive(::serde::Deserialize, ::serde::Serialize, Clone, Debug, PartialEq)]
pub struct G {
    #[serde(rename = "a-req")]
    pub a_req: ::std::string::String,
    #[serde(rename = "dDef", default = "defaults::g_d_def")]
    pub d_def: ::std::string::String,
    #[serde(
        rename = "e-null",
        default,
        skip_serializing_if = "::std::option::Option::is_none"
    )]
    pub e_null: ::std::option::Option<::std::string::String>,
    #[serde(rename = "fNullDef", default = "defaults::g_f_null_def")]
    pub f_null_def: ::std::option::Option<::std::string::String>,
}
impl ::std::convert::From<&G> for G {
    fn from(value: &G) -> Self {
        value.clone()
    }
}
/// Generation of default values for serde.
pub mod defaults {
    pub(super) fn g_d_def() -> ::std::string::String {
        "x y".to_string()
    }
    pub(super) fn g_f_null_def() -> ::std::option::Option<::std::string::String> {
        ::std::option::Option::Some("x y".to_string())
    }
}
