/// Error types.
pub mod error {
    /// Error from a `TryFrom` or `FromStr` implementation.
    pub struct ConversionError(::std::borrow::Cow<'static, str>);
    impl ::std::error::Error for ConversionError {}
    impl ::std::fmt::Display for ConversionError {
        fn fmt(
            &self,
            f: &mut ::std::fmt::Formatter<'_>,
        ) -> Result<(), ::std::fmt::Error> {
            ::std::fmt::Display::fmt(&self.0, f)
        }
    }
    impl ::std::fmt::Debug for ConversionError {
        fn fmt(
            &self,
            f: &mut ::std::fmt::Formatter<'_>,
        ) -> Result<(), ::std::fmt::Error> {
            ::std::fmt::Debug::fmt(&self.0, f)
        }
    }
    impl From<&'static str> for ConversionError {
        fn from(value: &'static str) -> Self {
            Self(value.into())
        }
    }
    impl From<String> for ConversionError {
        fn from(value: String) -> Self {
            Self(value.into())
        }
    }
}
///`Pt`
///
/// <details><summary>JSON schema</summary>
///
/// ```json
///{
///  "type": "object",
///  "required": [
///    "x"
///  ],
///  "properties": {
///    "foo-bar": {
///      "type": "string"
///    },
///    "type": {
///      "type": [
///        "boolean",
///        "null"
///      ]
///    },
///    "x": {
///      "type": "integer",
///      "format": "uint8"
///    },
///    "y": {
///      "default": 7,
///      "type": "integer"
///    }
///  },
///  "additionalProperties": false
///}
/// ```
/// </details>
#[derive(::serde::Deserialize, ::serde::Serialize, Clone, Debug)]
#[serde(deny_unknown_fields)]
pub struct Pt {
    #[serde(
        rename = "foo-bar",
        default,
        skip_serializing_if = "::std::option::Option::is_none"
    )]
    pub foo_bar: ::std::option::Option<::std::string::String>,
    #[serde(
        rename = "type",
        default,
        skip_serializing_if = "::std::option::Option::is_none"
    )]
    pub type_: ::std::option::Option<bool>,
    pub x: u8,
    #[serde(default = "defaults::default_u64::<i64, 7>")]
    pub y: i64,
}
impl ::std::convert::From<&Pt> for Pt {
    fn from(value: &Pt) -> Self {
        value.clone()
    }
}
/// Generation of default values for serde.
pub mod defaults {
    pub(super) fn default_u64<T, const V: u64>() -> T
    where
        T: ::std::convert::TryFrom<u64>,
        <T as ::std::convert::TryFrom<u64>>::Error: ::std::fmt::Debug,
    {
        T::try_from(V).unwrap()
    }
}
