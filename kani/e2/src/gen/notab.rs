/// Error types.
pub mod error {
    /// Error from a `TryFrom` or `FromStr` implementation.
    pub struct ConversionError(::std::borrow::Cow<'static, str>);
    impl ::std::error::Error for ConversionError {}
    impl ::std::fmt::Display for ConversionError {
        fn fmt(
            &self,
            f: &mut ::std::fmt::Formatter<'_>,
        ) -> Result<(), ::std::fmt::Error> {
            ::std::fmt::Display::fmt(&self.0, f)
        }
    }
    impl ::std::fmt::Debug for ConversionError {
        fn fmt(
            &self,
            f: &mut ::std::fmt::Formatter<'_>,
        ) -> Result<(), ::std::fmt::Error> {
            ::std::fmt::Debug::fmt(&self.0, f)
        }
    }
    impl From<&'static str> for ConversionError {
        fn from(value: &'static str) -> Self {
            Self(value.into())
        }
    }
    impl From<String> for ConversionError {
        fn from(value: String) -> Self {
            Self(value.into())
        }
    }
}
///`NotAb`
///
/// <details><summary>JSON schema</summary>
///
/// ```json
///{
///  "type": "string",
///  "not": {
///    "enum": [
///      "a",
///      "bc",
///      "é"
///    ]
///  }
///}
/// ```
/// </details>
#[derive(::serde::Serialize, Clone, Debug, Eq, Hash, Ord, PartialEq, PartialOrd)]
#[serde(transparent)]
pub struct NotAb(::std::string::String);
impl ::std::ops::Deref for NotAb {
    type Target = ::std::string::String;
    fn deref(&self) -> &::std::string::String {
        &self.0
    }
}
impl ::std::convert::From<NotAb> for ::std::string::String {
    fn from(value: NotAb) -> Self {
        value.0
    }
}
impl ::std::convert::From<&NotAb> for NotAb {
    fn from(value: &NotAb) -> Self {
        value.clone()
    }
}
impl ::std::convert::TryFrom<::std::string::String> for NotAb {
    type Error = self::error::ConversionError;
    fn try_from(
        value: ::std::string::String,
    ) -> ::std::result::Result<Self, self::error::ConversionError> {
        if ["a".to_string(), "bc".to_string(), "é".to_string()].contains(&value) {
            Err("invalid value".into())
        } else {
            Ok(Self(value))
        }
    }
}
impl<'de> ::serde::Deserialize<'de> for NotAb {
    fn deserialize<D>(deserializer: D) -> ::std::result::Result<Self, D::Error>
    where
        D: ::serde::Deserializer<'de>,
    {
        Self::try_from(<::std::string::String>::deserialize(deserializer)?)
            .map_err(|e| { <D::Error as ::serde::de::Error>::custom(e.to_string()) })
    }
}
