//! Straight-line helpers the generated harness code (lib/corpus.py) is made of:
//! token emitters with symbolic leaves, and the leaf-level clauses of our own
//! draft-07 evaluator. The *structure* of each schema is unrolled by the
//! generator into calls of these helpers at statically known token positions
//! (a schema interpreter walking a `static` tree did not return under CBMC:
//! measured), so nothing here recurses. Nothing here comes from typify.

use crate::src::{encode_scalar, Src};
use crate::tok::{Doc, Tok, K, NBYTES, NTOK};

#[derive(Clone, Copy, Debug, PartialEq)]
pub struct Verdict {
    /// valid under the schema (draft-07, integer formats read as ranges)
    pub valid: bool,
    /// violates a constraint kind typify represents in types (C05): JSON type of
    /// a scalar, string length, enum membership, deny list, required member,
    /// closed object, tuple arity
    pub enforced_violation: bool,
}

pub const OK: Verdict = Verdict { valid: true, enforced_violation: false };
pub const BAD: Verdict = Verdict { valid: false, enforced_violation: true };
pub const SOFT: Verdict = Verdict { valid: false, enforced_violation: false };

impl Verdict {
    pub fn and(self, b: Verdict) -> Verdict {
        Verdict { valid: self.valid && b.valid, enforced_violation: self.enforced_violation || b.enforced_violation }
    }
}

#[derive(Clone, Copy, Debug, PartialEq)]
pub enum Wrong {
    Null,
    Bool,
    Int,
    Str,
}

// ------------------------------------------------------------ emitters

pub fn put_null<S: Src>(_s: &mut S, doc: &mut Doc) -> usize {
    doc.push(Tok::NULL)
}
pub fn put_bool<S: Src>(s: &mut S, doc: &mut Doc) -> usize {
    let b = s.bool();
    doc.push(Tok::bool(b))
}
/// any integer of i64 ∪ u64
pub fn put_int<S: Src>(s: &mut S, doc: &mut Doc) -> usize {
    if s.bool() {
        let v = s.i64();
        doc.push(Tok::i64(v))
    } else {
        let v = s.u64();
        doc.push(Tok::u64(v))
    }
}
/// a string of scalars with the given UTF-8 widths, all code points symbolic
pub fn put_free_string<S: Src>(s: &mut S, doc: &mut Doc, widths: &[u8]) -> usize {
    let off = doc.nb;
    let mut at = off;
    let mut i = 0;
    while i < widths.len() {
        let c = s.scalar(widths[i]);
        at = encode_scalar(&mut doc.bytes, at, c, widths[i]);
        i += 1;
    }
    doc.nb = at;
    doc.push(Tok::str(off as u16, (at - off) as u16))
}
/// a member of `members` chosen by a symbolic index, in a fixed-size arena slot
pub fn put_member_string<S: Src>(s: &mut S, doc: &mut Doc, members: &[&str], slot: usize) -> usize {
    let k = s.below(members.len() as u8) as usize;
    let off = doc.nb;
    let m = members[k].as_bytes();
    let mut i = 0;
    while i < slot {
        if i < m.len() && off + i < NBYTES {
            doc.bytes[off + i] = m[i];
        }
        i += 1;
    }
    doc.nb = off + slot;
    doc.push(Tok::str(off as u16, m.len() as u16))
}
pub fn put_wrong<S: Src>(s: &mut S, doc: &mut Doc, w: Wrong, widths: &[u8]) -> usize {
    match w {
        Wrong::Null => doc.push(Tok::NULL),
        Wrong::Bool => put_bool(s, doc),
        Wrong::Int => {
            let v = s.i64();
            doc.push(Tok::i64(v))
        }
        Wrong::Str => put_free_string(s, doc, widths),
    }
}
pub fn put_key(doc: &mut Doc, name: &'static str, present: bool, span: u16) -> usize {
    doc.push(Tok::keys(name, present, span))
}
/// an undeclared member: name of 1..=2 symbolic ASCII letters different from
/// every declared name, value null
pub fn put_extra_key<S: Src>(s: &mut S, doc: &mut Doc, declared: &[&str]) {
    let two = s.bool();
    let off = doc.nb;
    let a = s.u8();
    let b = s.u8();
    s.assume(a >= b'a' && a <= b'z' && b >= b'a' && b <= b'z');
    doc.bytes[off] = a;
    doc.bytes[off + 1] = b;
    doc.nb = off + 2;
    let len = if two { 2 } else { 1 };
    let mut j = 0;
    while j < declared.len() {
        let same = doc.bytes_eq(off as u16, len, declared[j]);
        s.assume(!same);
        j += 1;
    }
    doc.push(Tok::key(off as u16, len, true, 1));
    doc.push(Tok::NULL);
}

/// a variant tag that is none of the declared names: 1..=2 symbolic ASCII letters
pub fn put_bad_tag<S: Src>(s: &mut S, doc: &mut Doc, declared: &[&str], span: u16, len: u16) {
    let off = doc.nb;
    let a = s.u8();
    let b = s.u8();
    s.assume(a >= b'a' && a <= b'z' && b >= b'a' && b <= b'z');
    doc.bytes[off] = a;
    doc.bytes[off + 1] = b;
    doc.nb = off + 2;
    let mut j = 0;
    while j < declared.len() {
        let same = doc.bytes_eq(off as u16, len, declared[j]);
        s.assume(!same);
        j += 1;
    }
    doc.push(Tok::key(off as u16, len, true, span));
}

// ------------------------------------------------------------ leaf clauses of the evaluator

fn tok(doc: &Doc, pos: usize) -> Tok {
    if pos < NTOK {
        doc.toks[pos]
    } else {
        Tok::PAD
    }
}

pub fn int_of(t: Tok) -> Option<i128> {
    t.int()
}

fn in_ints(v: i128, members: &[i64]) -> bool {
    let mut i = 0;
    let mut any = false;
    while i < members.len() {
        any = any || v == members[i] as i128;
        i += 1;
    }
    any
}

fn in_strs(doc: &Doc, off: u16, len: u16, members: &[&str]) -> bool {
    let mut i = 0;
    let mut any = false;
    while i < members.len() {
        any = any || doc.bytes_eq(off, len, members[i]);
        i += 1;
    }
    any
}

pub fn scalar_count(doc: &Doc, off: u16, len: u16) -> u32 {
    // number of UTF-8 lead bytes
    let mut n = 0;
    let mut i = 0;
    while i < len as usize {
        if doc.bytes[off as usize + i] & 0xC0 != 0x80 {
            n += 1;
        }
        i += 1;
    }
    n
}

pub fn is_null(doc: &Doc, pos: usize) -> bool {
    tok(doc, pos).kind == K::Null
}
pub fn is_pad(doc: &Doc, pos: usize) -> bool {
    tok(doc, pos).kind == K::Pad
}
pub fn is_bool(doc: &Doc, pos: usize, b: bool) -> bool {
    let t = tok(doc, pos);
    t.kind == K::Bool && (t.num != 0) == b
}
pub fn is_str(doc: &Doc, pos: usize, s: &str) -> bool {
    let t = tok(doc, pos);
    t.kind == K::Str && doc.bytes_eq(t.off, t.len, s)
}
pub fn is_int(doc: &Doc, pos: usize, v: i128) -> bool {
    tok(doc, pos).int() == Some(v)
}
pub fn is_empty_seq(doc: &Doc, pos: usize) -> bool {
    let t = tok(doc, pos);
    t.kind == K::Seq && t.n == 0
}
pub fn v_null(doc: &Doc, pos: usize) -> Verdict {
    if is_null(doc, pos) {
        OK
    } else {
        BAD
    }
}
pub fn v_bool(doc: &Doc, pos: usize) -> Verdict {
    if tok(doc, pos).kind == K::Bool {
        OK
    } else {
        BAD
    }
}
pub fn v_int(doc: &Doc, pos: usize, lo: i128, hi: i128) -> Verdict {
    match tok(doc, pos).int() {
        None => BAD,
        Some(v) => {
            if v >= lo && v <= hi {
                OK
            } else {
                SOFT
            }
        }
    }
}
pub fn v_int_enum(doc: &Doc, pos: usize, members: &[i64], allow: bool) -> Verdict {
    match tok(doc, pos).int() {
        None => BAD,
        Some(v) => {
            if in_ints(v, members) == allow {
                OK
            } else {
                BAD
            }
        }
    }
}
pub fn v_str(doc: &Doc, pos: usize, min: Option<u32>, max: Option<u32>) -> Verdict {
    let t = tok(doc, pos);
    if t.kind != K::Str {
        return BAD;
    }
    let k = scalar_count(doc, t.off, t.len);
    if min.map_or(true, |m| k >= m) && max.map_or(true, |m| k <= m) {
        OK
    } else {
        BAD
    }
}
pub fn v_str_enum(doc: &Doc, pos: usize, members: &[&str], allow: bool) -> Verdict {
    let t = tok(doc, pos);
    if t.kind != K::Str {
        return BAD;
    }
    if in_strs(doc, t.off, t.len, members) == allow {
        OK
    } else {
        BAD
    }
}

// ------------------------------------------------------------ document navigation (loops, no recursion)

/// Position of the value of member `name` of the object at `pos` and whether it
/// is present.
pub fn member(doc: &Doc, pos: usize, name: &str) -> Option<(usize, bool)> {
    if pos >= NTOK {
        return None;
    }
    let m = doc.toks[pos];
    if m.kind != K::Map {
        return None;
    }
    let mut p = pos + 1;
    let mut i = 0;
    while i < m.n {
        if p >= NTOK {
            return None;
        }
        let k = doc.toks[p];
        if !k.is_key() {
            return None;
        }
        if doc.key_is(k, name) {
            return Some((p + 1, k.present));
        }
        p += 1 + k.span as usize;
        i += 1;
    }
    None
}

pub fn is_empty_value(doc: &Doc, pos: usize) -> bool {
    let t = tok(doc, pos);
    t.kind == K::Null || ((t.kind == K::Seq || t.kind == K::Map) && t.n == 0)
}

fn same_bytes(a: &Doc, ao: u16, al: u16, b: &Doc, bo: u16, bl: u16) -> bool {
    if al != bl {
        return false;
    }
    let mut same = true;
    let mut i = 0;
    while i < al as usize {
        same = same && a.bytes[ao as usize + i] == b.bytes[bo as usize + i];
        i += 1;
    }
    same
}

/// Same JSON scalar at `pa` in `a` and `pb` in `b` (integers numerically).
pub fn same_leaf(a: &Doc, pa: usize, b: &Doc, pb: usize) -> bool {
    let (x, y) = (tok(a, pa), tok(b, pb));
    if let (Some(p), Some(q)) = (x.int(), y.int()) {
        return p == q;
    }
    if x.kind != y.kind {
        return false;
    }
    match x.kind {
        K::Str => same_bytes(a, x.off, x.len, b, y.off, y.len),
        K::Null => true,
        K::Bool => (x.num != 0) == (y.num != 0),
        K::F64 => f64::from_bits(x.num) == f64::from_bits(y.num),
        _ => false,
    }
}

/// Token-wise equality of two documents with the same layout (padding of absent
/// members ignored).
pub fn same_doc(a: &Doc, b: &Doc) -> bool {
    if a.n != b.n {
        return false;
    }
    let mut same = true;
    let mut i = 0;
    while i < a.n && i < NTOK {
        let (x, y) = (a.toks[i], b.toks[i]);
        let eq = if x.kind == K::Pad || y.kind == K::Pad {
            true
        } else if x.is_key() && y.is_key() {
            x.present == y.present && x.span == y.span && str_eq_keys(a, x, b, y)
        } else if (x.kind == K::Seq && y.kind == K::Seq) || (x.kind == K::Map && y.kind == K::Map) {
            x.n == y.n && x.span == y.span
        } else {
            same_leaf(a, i, b, i)
        };
        same = same && eq;
        i += 1;
    }
    same
}

fn str_eq_keys(a: &Doc, x: Tok, b: &Doc, y: Tok) -> bool {
    crate::tok::str_eq(a.key_name(x), b.key_name(y))
}

/// Like `same_doc`, but a member that is absent on one side may be `null` on
/// the other (serde-derived `Option` fields read both as `None`).
pub fn same_doc_relaxed(a: &Doc, b: &Doc) -> bool {
    if a.n != b.n {
        return false;
    }
    let mut same = true;
    let mut i = 0;
    while i < a.n && i < NTOK {
        let (x, y) = (a.toks[i], b.toks[i]);
        let eq = if x.kind == K::Pad || y.kind == K::Pad {
            true
        } else if x.is_key() && y.is_key() {
            let names = x.span == y.span && str_eq_keys(a, x, b, y);
            if x.present == y.present {
                names
            } else if x.present {
                names && is_null(a, i + 1)
            } else {
                names && is_null(b, i + 1)
            }
        } else if (x.kind == K::Seq && y.kind == K::Seq) || (x.kind == K::Map && y.kind == K::Map) {
            x.n == y.n && x.span == y.span
        } else {
            // (a value inside a slot that is absent on the other side faces padding there)
            same_leaf(a, i, b, i)
        };
        same = same && eq;
        i += 1;
    }
    same
}
