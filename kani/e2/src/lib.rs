//! Engine E2 harness crate. See /verif/DESIGN.md §4.3.
pub mod bodies;
#[cfg(not(kani))]
pub mod render;
#[path = "../../../corpus/origin_types.rs"]
pub mod origin;
pub mod sch;
pub mod src;
pub mod tok;

/// Declares every harness once: as a `#[kani::proof]` (under Kani) and as an
/// entry of the native replay dispatcher.
#[macro_export]
macro_rules! harnesses {
    ($( $(#[$m:meta])* $name:ident => $e:expr ;)*) => {
        $(
            #[cfg(kani)]
            #[kani::proof]
            $(#[$m])*
            #[kani::stub(alloc::fmt::format, $crate::src::no_format)]
            fn $name() {
                let mut s = $crate::src::KaniSrc;
                let f = $e;
                f(&mut s)
            }
        )*
        pub const HARNESSES: &[&str] = &[$(stringify!($name)),*];
        pub fn dispatch(name: &str, s: &mut $crate::src::ReplaySrc) -> bool {
            match name {
                $( stringify!($name) => { let f = $e; f(s); true } )*
                _ => false,
            }
        }
    };
}

#[path = "gen/mod.rs"]
pub mod gen;
#[path = "gen/harnesses.rs"]
pub mod harnesses_gen;
pub use harnesses_gen::{dispatch, HARNESSES};
