//! A JSON document as a flat token array with a *concrete layout* and symbolic
//! leaves, plus serde `Deserializer` / `Serializer` over it that mirror what
//! `serde_json::Value` does (data-model mapping only; no text).
//!
//! Layout rules that keep every cursor concrete under symbolic execution:
//!  * an object is `Map{n, span}` followed by `n` entries `Key{present, span}` +
//!    `span` value tokens; an absent member (`present == false`, possibly
//!    symbolic) keeps its slot: the deserializer skips `1 + span` tokens, the
//!    serializer's `skip_field` pads the slot, so positions never depend on
//!    symbolic data;
//!  * arrays are `Seq{n, span}` followed by `n` values;
//!  * strings live in a byte arena (`off`, `len` concrete; bytes symbolic).

use serde::de::{self, DeserializeSeed, IntoDeserializer, Visitor};
use serde::ser;

pub const NTOK: usize = 24;
pub const NBYTES: usize = 64;

/// Unit error: messages are dropped (formatting them dominates CBMC's run time).
#[derive(Debug, Clone, Copy, PartialEq)]
pub struct E;
impl std::fmt::Display for E {
    fn fmt(&self, _: &mut std::fmt::Formatter<'_>) -> std::fmt::Result {
        Ok(())
    }
}
impl std::error::Error for E {}
impl de::Error for E {
    fn custom<T: std::fmt::Display>(_: T) -> Self {
        E
    }
}
impl ser::Error for E {
    fn custom<T: std::fmt::Display>(_: T) -> Self {
        E
    }
}

/// Token kinds. A token is a plain struct (not a data-carrying enum): Kani
/// encodes such enums as unions, through which CBMC does not propagate constants,
/// and then every cursor and length of the layout becomes symbolic (measured).
#[derive(Clone, Copy, Debug, PartialEq, Eq)]
#[repr(u8)]
pub enum K {
    Pad,
    Null,
    Bool,
    I64,
    U64,
    F64,
    Str,
    Seq,
    Map,
    /// object member whose name lives in the byte arena (undeclared members)
    Key,
    /// object member whose name is a string constant (every declared member)
    KeyS,
}

#[derive(Clone, Copy, Debug, PartialEq)]
pub struct Tok {
    pub kind: K,
    /// Bool: 0/1; I64/U64: the value's bits; F64: the float's bits
    pub num: u64,
    /// Str/Key: arena slice
    pub off: u16,
    pub len: u16,
    /// Seq/Map: number of elements/entries
    pub n: u16,
    /// Seq/Map: tokens of the content; Key/KeyS: tokens of the value
    pub span: u16,
    /// Key/KeyS: is the member part of the document?
    pub present: bool,
    /// KeyS: the member name
    pub name: &'static str,
}

impl Tok {
    pub const PAD: Tok = Tok { kind: K::Pad, num: 0, off: 0, len: 0, n: 0, span: 0, present: false, name: "" };
    pub const NULL: Tok = Tok { kind: K::Null, ..Tok::PAD };
    pub fn bool(b: bool) -> Tok {
        Tok { kind: K::Bool, num: b as u64, ..Tok::PAD }
    }
    pub fn i64(v: i64) -> Tok {
        Tok { kind: K::I64, num: v as u64, ..Tok::PAD }
    }
    pub fn u64(v: u64) -> Tok {
        Tok { kind: K::U64, num: v, ..Tok::PAD }
    }
    pub fn f64(v: f64) -> Tok {
        Tok { kind: K::F64, num: v.to_bits(), ..Tok::PAD }
    }
    pub fn str(off: u16, len: u16) -> Tok {
        Tok { kind: K::Str, off, len, ..Tok::PAD }
    }
    pub fn seq(n: u16, span: u16) -> Tok {
        Tok { kind: K::Seq, n, span, ..Tok::PAD }
    }
    pub fn map(n: u16, span: u16) -> Tok {
        Tok { kind: K::Map, n, span, ..Tok::PAD }
    }
    pub fn key(off: u16, len: u16, present: bool, span: u16) -> Tok {
        Tok { kind: K::Key, off, len, present, span, ..Tok::PAD }
    }
    pub fn keys(name: &'static str, present: bool, span: u16) -> Tok {
        Tok { kind: K::KeyS, name, present, span, ..Tok::PAD }
    }
    pub fn is_key(&self) -> bool {
        self.kind == K::Key || self.kind == K::KeyS
    }
    /// the integer value of an I64/U64 token
    pub fn int(&self) -> Option<i128> {
        match self.kind {
            K::I64 => Some(self.num as i64 as i128),
            K::U64 => Some(self.num as i128),
            _ => None,
        }
    }
}

/// An open array/object while serializing. Kept in the document (behind a
/// pointer) and not in the `Compound` value: serde hands compounds around inside
/// `Result`, and CBMC does not propagate constants through Rust enums (measured:
/// positions became symbolic and nothing returned).
#[derive(Clone, Copy)]
pub struct Open {
    pub head: usize,
    pub count: u16,
    pub is_map: bool,
    /// position of the pending dynamic map key
    pub key_at: usize,
    /// this compound is the content of `{ "Variant": ... }`
    pub wrapped: bool,
    pub wrap_map_at: usize,
    pub wrap_key_at: usize,
}
const NO_OPEN: Open = Open { head: 0, count: 0, is_map: false, key_at: 0, wrapped: false, wrap_map_at: 0, wrap_key_at: 0 };
pub const DEPTH: usize = 6;
/// Every string written by the serializer gets an arena slot of this size, so
/// that arena offsets do not depend on (possibly symbolic) string lengths.
pub const SLOT: usize = 12;

#[derive(Clone)]
pub struct Doc {
    pub toks: [Tok; NTOK],
    pub n: usize,
    pub bytes: [u8; NBYTES],
    pub nb: usize,
    pub overflow: bool,
    /// a string written where the template has a string had another length
    pub len_mismatch: bool,
    /// serializer state: is the value being written inside a member that is
    /// present in the template (then the template's tokens are the expected ones)?
    tpl_live: bool,
    open: [Open; DEPTH],
    depth: usize,
}

impl Default for Doc {
    fn default() -> Self {
        Self::new()
    }
}

impl Doc {
    pub fn new() -> Self {
        Doc { toks: [Tok::PAD; NTOK], n: 0, bytes: [0; NBYTES], nb: 0, overflow: false, len_mismatch: false, tpl_live: true, open: [NO_OPEN; DEPTH], depth: 0 }
    }
    pub fn push(&mut self, t: Tok) -> usize {
        let at = self.n;
        if at < NTOK {
            self.toks[at] = t;
        } else {
            self.overflow = true;
        }
        self.n = at + 1;
        at
    }
    /// Copy `s` into the arena (loop bounded by the string's length).
    pub fn intern(&mut self, s: &[u8]) -> (u16, u16) {
        let off = self.nb;
        let mut i = 0;
        while i < s.len() {
            if off + i < NBYTES {
                self.bytes[off + i] = s[i];
            } else {
                self.overflow = true;
            }
            i += 1;
        }
        self.nb = off + s.len();
        (off as u16, s.len() as u16)
    }
    pub fn push_str(&mut self, s: &str) -> usize {
        let (off, len) = self.intern(s.as_bytes());
        self.push(Tok::str(off, len))
    }
    /// Like `push_str` for strings whose length CBMC may not know as a constant
    /// (anything that went through a generated type): fixed-size arena slot; and
    /// when the caller knows the length the string ought to have (`hint`, from
    /// the template document) that constant is recorded as the length and a
    /// deviation is flagged instead - keeping lengths constant for what follows.
    pub fn push_str_slot(&mut self, s: &str, hint: Option<u16>) -> usize {
        let b = s.as_bytes();
        let off = self.nb;
        if off + SLOT > NBYTES {
            self.overflow = true;
        } else {
            let mut i = 0;
            while i < SLOT {
                if i < b.len() {
                    self.bytes[off + i] = b[i];
                }
                i += 1;
            }
        }
        self.nb = off + SLOT;
        let len = match hint {
            Some(h) => {
                if b.len() != h as usize {
                    self.len_mismatch = true;
                }
                h
            }
            None => {
                if b.len() > SLOT {
                    self.overflow = true;
                }
                b.len() as u16
            }
        };
        self.push(Tok::str(off as u16, len))
    }
    pub fn str_at(&self, off: u16, len: u16) -> &str {
        let (a, b) = (off as usize, off as usize + len as usize);
        // SAFETY: the arena only ever receives whole `&str`s or bytes encoded by
        // `encode_scalar` from assumed-valid code points.
        unsafe { std::str::from_utf8_unchecked(&self.bytes[a..b]) }
    }
    pub fn bytes_eq(&self, off: u16, len: u16, s: &str) -> bool {
        let b = s.as_bytes();
        if len as usize != b.len() {
            return false;
        }
        let mut i = 0;
        while i < b.len() {
            if self.bytes[off as usize + i] != b[i] {
                return false;
            }
            i += 1;
        }
        true
    }
    /// Name of the member whose key token is `t`.
    pub fn key_name(&self, t: Tok) -> &str {
        if t.kind == K::KeyS {
            t.name
        } else {
            self.str_at(t.off, t.len)
        }
    }
    pub fn key_is(&self, t: Tok, name: &str) -> bool {
        if t.kind == K::KeyS {
            str_eq(t.name, name)
        } else {
            self.bytes_eq(t.off, t.len, name)
        }
    }
    /// Number of tokens the value starting at `pos` occupies (concrete layout).
    pub fn span_at(&self, pos: usize) -> usize {
        let t = self.toks[pos];
        match t.kind {
            K::Seq | K::Map | K::Key | K::KeyS => 1 + t.span as usize,
            _ => 1,
        }
    }
}

// ------------------------------------------------------------------ Deserializer

pub struct De<'d> {
    pub doc: &'d Doc,
    pub pos: usize,
}

impl<'d> De<'d> {
    pub fn new(doc: &'d Doc) -> Self {
        De { doc, pos: 0 }
    }
    fn peek(&self) -> Tok {
        if self.pos < NTOK {
            self.doc.toks[self.pos]
        } else {
            Tok::PAD
        }
    }
    fn next(&mut self) -> Tok {
        let t = self.peek();
        self.pos += 1;
        t
    }
    fn skip_value(&mut self) {
        self.pos += self.doc.span_at(self.pos);
    }
}

/// serde never asks for an element/key after the access reported the end, nor
/// for a value without a key. CBMC cannot see that: the `Option` the access
/// returns travels inside a `Result` (a union to CBMC), so the visitor's loop
/// "may" continue, and those phantom iterations make every later cursor
/// symbolic (measured). The protocol is therefore stated as an assumption, which
/// prunes the phantom paths; natively it is checked.
fn protocol_violation() -> E {
    #[cfg(kani)]
    kani::assume(false);
    #[cfg(not(kani))]
    panic!("serde access protocol violated (element requested after the end, or value without key)");
    #[allow(unreachable_code)]
    E
}

struct SeqAcc<'a, 'd> {
    de: &'a mut De<'d>,
    left: usize,
    done: bool,
}
impl<'de, 'a, 'd: 'de> de::SeqAccess<'de> for SeqAcc<'a, 'd> {
    type Error = E;
    fn next_element_seed<T: DeserializeSeed<'de>>(&mut self, seed: T) -> Result<Option<T::Value>, E> {
        if self.done {
            return Err(protocol_violation());
        }
        if self.left == 0 {
            self.done = true;
            return Ok(None);
        }
        self.left -= 1;
        seed.deserialize(&mut *self.de).map(Some)
    }
    fn size_hint(&self) -> Option<usize> {
        Some(self.left)
    }
}

struct MapAcc<'a, 'd> {
    de: &'a mut De<'d>,
    left: usize,
    /// 0 = a key is expected, 1 = a key was delivered and its value is expected, 2 = the end was reported
    state: u8,
}
impl<'de, 'a, 'd: 'de> de::MapAccess<'de> for MapAcc<'a, 'd> {
    type Error = E;
    fn next_key_seed<KS: DeserializeSeed<'de>>(&mut self, seed: KS) -> Result<Option<KS::Value>, E> {
        if self.state != 0 {
            return Err(protocol_violation());
        }
        while self.left > 0 {
            self.left -= 1;
            let t = self.de.next();
            if !t.is_key() {
                return Err(E);
            }
            if t.present {
                self.state = 1;
                if t.kind == K::KeyS {
                    return seed.deserialize(de::value::BorrowedStrDeserializer::<E>::new(t.name)).map(Some);
                }
                let k: &'d str = self.de.doc.str_at(t.off, t.len);
                return seed.deserialize(de::value::BorrowedStrDeserializer::<E>::new(k)).map(Some);
            }
            self.de.pos += t.span as usize;
        }
        self.state = 2;
        Ok(None)
    }
    fn next_value_seed<V: DeserializeSeed<'de>>(&mut self, seed: V) -> Result<V::Value, E> {
        if self.state != 1 {
            return Err(protocol_violation());
        }
        self.state = 0;
        seed.deserialize(&mut *self.de)
    }
}

/// Externally tagged enum access: `"Variant"` or `{"Variant": content}`.
struct EnumAcc<'a, 'd> {
    de: &'a mut De<'d>,
    unit: bool,
}
impl<'de, 'a, 'd: 'de> de::EnumAccess<'de> for EnumAcc<'a, 'd> {
    type Error = E;
    type Variant = Self;
    fn variant_seed<V: DeserializeSeed<'de>>(self, seed: V) -> Result<(V::Value, Self), E> {
        let t = self.de.next();
        let k: &'d str = if self.unit && t.kind == K::Str {
            self.de.doc.str_at(t.off, t.len)
        } else if !self.unit && t.kind == K::Key && t.present {
            self.de.doc.str_at(t.off, t.len)
        } else if !self.unit && t.kind == K::KeyS && t.present {
            t.name
        } else {
            return Err(E);
        };
        let v = seed.deserialize(de::value::BorrowedStrDeserializer::<E>::new(k))?;
        Ok((v, self))
    }
}
impl<'de, 'a, 'd: 'de> de::VariantAccess<'de> for EnumAcc<'a, 'd> {
    type Error = E;
    fn unit_variant(self) -> Result<(), E> {
        if self.unit {
            Ok(())
        } else {
            // {"Variant": null}
            if self.de.next().kind == K::Null {
                Ok(())
            } else {
                Err(E)
            }
        }
    }
    fn newtype_variant_seed<T: DeserializeSeed<'de>>(self, seed: T) -> Result<T::Value, E> {
        if self.unit {
            return Err(E);
        }
        seed.deserialize(&mut *self.de)
    }
    fn tuple_variant<V: Visitor<'de>>(self, _len: usize, visitor: V) -> Result<V::Value, E> {
        if self.unit {
            return Err(E);
        }
        de::Deserializer::deserialize_seq(&mut *self.de, visitor)
    }
    fn struct_variant<V: Visitor<'de>>(self, _fields: &'static [&'static str], visitor: V) -> Result<V::Value, E> {
        if self.unit {
            return Err(E);
        }
        de::Deserializer::deserialize_map(&mut *self.de, visitor)
    }
}

impl<'de, 'a, 'd: 'de> de::Deserializer<'de> for &'a mut De<'d> {
    type Error = E;

    fn deserialize_any<V: Visitor<'de>>(self, visitor: V) -> Result<V::Value, E> {
        let t = self.next();
        match t.kind {
            K::Null => visitor.visit_unit(),
            K::Bool => visitor.visit_bool(t.num != 0),
            K::I64 => {
                // serde_json: non-negative integers are u64, negative ones i64
                let v = t.num as i64;
                if v >= 0 {
                    visitor.visit_u64(v as u64)
                } else {
                    visitor.visit_i64(v)
                }
            }
            K::U64 => visitor.visit_u64(t.num),
            K::F64 => visitor.visit_f64(f64::from_bits(t.num)),
            K::Str => {
                let s: &'d str = self.doc.str_at(t.off, t.len);
                visitor.visit_borrowed_str(s)
            }
            // After a compound value the cursor is set to the (concrete) end of its
            // slot on *every* path. On success this is what serde_json's
            // "trailing elements -> invalid length" check enforces anyway; doing it
            // on the error paths too keeps the cursor a constant for CBMC, which
            // merges the callee's error and success paths before `?` separates them.
            K::Seq => {
                let end = self.pos + t.span as usize;
                let r = visitor.visit_seq(SeqAcc { de: &mut *self, left: t.n as usize, done: false });
                let all = self.pos == end;
                self.pos = end;
                match r {
                    Ok(v) if all => Ok(v),
                    Ok(_) => Err(E),
                    Err(e) => Err(e),
                }
            }
            K::Map => {
                let end = self.pos + t.span as usize;
                let r = visitor.visit_map(MapAcc { de: &mut *self, left: t.n as usize, state: 0 });
                let all = self.pos == end;
                self.pos = end;
                match r {
                    Ok(v) if all => Ok(v),
                    Ok(_) => Err(E),
                    Err(e) => Err(e),
                }
            }
            K::Key | K::KeyS | K::Pad => Err(E),
        }
    }

    fn deserialize_option<V: Visitor<'de>>(self, visitor: V) -> Result<V::Value, E> {
        if self.peek().kind == K::Null {
            self.pos += 1;
            visitor.visit_none()
        } else {
            visitor.visit_some(self)
        }
    }

    fn deserialize_unit<V: Visitor<'de>>(self, visitor: V) -> Result<V::Value, E> {
        if self.next().kind == K::Null {
            visitor.visit_unit()
        } else {
            Err(E)
        }
    }

    fn deserialize_unit_struct<V: Visitor<'de>>(self, _n: &'static str, visitor: V) -> Result<V::Value, E> {
        self.deserialize_unit(visitor)
    }

    fn deserialize_newtype_struct<V: Visitor<'de>>(self, _n: &'static str, visitor: V) -> Result<V::Value, E> {
        visitor.visit_newtype_struct(self)
    }

    fn deserialize_enum<V: Visitor<'de>>(self, _n: &'static str, _v: &'static [&'static str], visitor: V) -> Result<V::Value, E> {
        let t = self.peek();
        if t.kind == K::Str {
            visitor.visit_enum(EnumAcc { de: self, unit: true })
        } else if t.kind == K::Map && t.n == 1 {
            // cursor normalised to the end of the slot on every path (see deserialize_any)
            let end = self.pos + 1 + t.span as usize;
            self.pos += 1;
            let r = visitor.visit_enum(EnumAcc { de: &mut *self, unit: false });
            let all = self.pos == end;
            self.pos = end;
            match r {
                Ok(v) if all => Ok(v),
                Ok(_) => Err(E),
                Err(e) => Err(e),
            }
        } else {
            Err(E)
        }
    }

    fn deserialize_ignored_any<V: Visitor<'de>>(self, visitor: V) -> Result<V::Value, E> {
        self.skip_value();
        visitor.visit_unit()
    }

    serde::forward_to_deserialize_any! {
        bool i8 i16 i32 i64 i128 u8 u16 u32 u64 u128 f32 f64 char str string
        bytes byte_buf seq tuple tuple_struct map struct identifier
    }
}

// keep `IntoDeserializer` in scope for harness code that wants plain leaves
pub fn str_de(s: &str) -> de::value::StrDeserializer<'_, E> {
    s.into_deserializer()
}

// ------------------------------------------------------------------ Serializer

/// Serializes into `out`, mirroring `serde_json::value::Serializer`'s mapping of
/// the serde data model to JSON. `template` (the input document, when there is
/// one) supplies the slot size of skipped members so that positions stay
/// concrete.
pub struct Ser<'o> {
    pub out: &'o mut Doc,
    pub template: Option<&'o Doc>,
}

impl<'o> Ser<'o> {
    pub fn new(out: &'o mut Doc, template: Option<&'o Doc>) -> Self {
        Ser { out, template }
    }
    fn reborrow(&mut self) -> Ser<'_> {
        Ser { out: &mut *self.out, template: self.template }
    }
    fn leaf(self, t: Tok) -> Result<(), E> {
        self.out.push(t);
        Ok(())
    }
    fn string(self, v: &str) -> Result<(), E> {
        let at = self.out.n;
        let hint = match self.template {
            Some(t) if self.out.tpl_live && at < NTOK && t.toks[at].kind == K::Str && (t.toks[at].len as usize) <= SLOT => Some(t.toks[at].len),
            _ => None,
        };
        self.out.push_str_slot(v, hint);
        Ok(())
    }
}

pub struct Compound<'o> {
    ser: Ser<'o>,
}

impl<'o> Compound<'o> {
    fn start(ser: Ser<'o>, is_map: bool, wrap: Option<(usize, usize)>) -> Result<Self, E> {
        let head = ser.out.push(if is_map { Tok::map(0, 0) } else { Tok::seq(0, 0) });
        let d = ser.out.depth;
        if d >= DEPTH {
            ser.out.overflow = true;
            return Err(E);
        }
        ser.out.open[d] = Open {
            head,
            count: 0,
            is_map,
            key_at: 0,
            wrapped: wrap.is_some(),
            wrap_map_at: wrap.map_or(0, |w| w.0),
            wrap_key_at: wrap.map_or(0, |w| w.1),
        };
        ser.out.depth = d + 1;
        Ok(Compound { ser })
    }
    fn top(&mut self) -> &mut Open {
        let d = self.ser.out.depth - 1;
        &mut self.ser.out.open[d]
    }
    fn finish(self) -> Result<(), E> {
        let out = self.ser.out;
        let d = out.depth - 1;
        out.depth = d;
        let o = out.open[d];
        let span = (out.n - o.head - 1) as u16;
        if o.head < NTOK {
            // element counts come out of loops over generated containers whose
            // length CBMC does not know as a constant: like string lengths, the
            // count is taken from the template where the template has the same
            // kind of compound at this position, and a deviation is flagged
            let mut n = o.count;
            if let Some(t) = self.ser.template {
                let tt = t.toks[o.head];
                if out.tpl_live && ((o.is_map && tt.kind == K::Map) || (!o.is_map && tt.kind == K::Seq)) {
                    if o.count != tt.n {
                        out.len_mismatch = true;
                    }
                    n = tt.n;
                }
            }
            out.toks[o.head] = if o.is_map { Tok::map(n, span) } else { Tok::seq(n, span) };
        }
        if o.wrapped {
            close_variant(out, o.wrap_map_at, o.wrap_key_at);
        }
        Ok(())
    }
    fn element<T: ?Sized + ser::Serialize>(&mut self, v: &T) -> Result<(), E> {
        self.top().count += 1;
        v.serialize(self.ser.reborrow())
    }
    fn field<T: ?Sized + ser::Serialize>(&mut self, key: &'static str, v: &T) -> Result<(), E> {
        self.top().count += 1;
        let live = self.ser.out.tpl_live;
        let (_, present) = self.template_slot(key);
        let at = self.ser.out.push(Tok::keys(key, true, 0));
        self.ser.out.tpl_live = live && present;
        let r = v.serialize(self.ser.reborrow());
        self.ser.out.tpl_live = live;
        r?;
        let span = (self.ser.out.n - at - 1) as u16;
        if at < NTOK {
            self.ser.out.toks[at] = Tok::keys(key, true, span);
        }
        Ok(())
    }
    /// (slot size, presence) of member `key` in the template's object at the same position.
    fn template_slot(&mut self, key: &str) -> (u16, bool) {
        let head = self.top().head;
        let Some(t) = self.ser.template else { return (0, false) };
        if head >= NTOK {
            return (0, false);
        }
        let m = t.toks[head];
        if m.kind == K::Map {
            let mut p = head + 1;
            let mut i = 0;
            while i < m.n {
                if p >= NTOK {
                    return (0, false);
                }
                let k = t.toks[p];
                if !k.is_key() {
                    return (0, false);
                }
                if t.key_is(k, key) {
                    return (k.span, k.present);
                }
                p += 1 + k.span as usize;
                i += 1;
            }
        }
        (0, false)
    }
    fn skipped(&mut self, key: &'static str) {
        self.top().count += 1;
        let (span, _) = self.template_slot(key);
        let at = self.ser.out.push(Tok::keys(key, false, span));
        let mut i = 0;
        while i < span {
            // keep the string arena in step with the template: one slot per string
            if let Some(t) = self.ser.template {
                if at + 1 + (i as usize) < NTOK && t.toks[at + 1 + i as usize].kind == K::Str {
                    self.ser.out.nb += SLOT;
                }
            }
            self.ser.out.push(Tok::PAD);
            i += 1;
        }
    }
}

fn open_variant(out: &mut Doc, variant: &'static str) -> (usize, usize) {
    let map_at = out.push(Tok::map(1, 0));
    let key_at = out.push(Tok::keys(variant, true, 0));
    (map_at, key_at)
}
fn close_variant(out: &mut Doc, map_at: usize, key_at: usize) {
    if key_at < NTOK {
        let name = out.toks[key_at].name;
        out.toks[key_at] = Tok::keys(name, true, (out.n - key_at - 1) as u16);
        out.toks[map_at] = Tok::map(1, (out.n - map_at - 1) as u16);
    }
}

/// Byte-wise string equality (no memcmp).
pub fn str_eq(a: &str, b: &str) -> bool {
    let (a, b) = (a.as_bytes(), b.as_bytes());
    if a.len() != b.len() {
        return false;
    }
    let mut same = true;
    let mut i = 0;
    while i < a.len() {
        same = same && a[i] == b[i];
        i += 1;
    }
    same
}

impl<'o> ser::SerializeSeq for Compound<'o> {
    type Ok = ();
    type Error = E;
    fn serialize_element<T: ?Sized + ser::Serialize>(&mut self, v: &T) -> Result<(), E> {
        self.element(v)
    }
    fn end(self) -> Result<(), E> {
        self.finish()
    }
}
impl<'o> ser::SerializeTuple for Compound<'o> {
    type Ok = ();
    type Error = E;
    fn serialize_element<T: ?Sized + ser::Serialize>(&mut self, v: &T) -> Result<(), E> {
        self.element(v)
    }
    fn end(self) -> Result<(), E> {
        self.finish()
    }
}
impl<'o> ser::SerializeTupleStruct for Compound<'o> {
    type Ok = ();
    type Error = E;
    fn serialize_field<T: ?Sized + ser::Serialize>(&mut self, v: &T) -> Result<(), E> {
        self.element(v)
    }
    fn end(self) -> Result<(), E> {
        self.finish()
    }
}
impl<'o> ser::SerializeTupleVariant for Compound<'o> {
    type Ok = ();
    type Error = E;
    fn serialize_field<T: ?Sized + ser::Serialize>(&mut self, v: &T) -> Result<(), E> {
        self.element(v)
    }
    fn end(self) -> Result<(), E> {
        self.finish()
    }
}
impl<'o> ser::SerializeMap for Compound<'o> {
    type Ok = ();
    type Error = E;
    fn serialize_key<T: ?Sized + ser::Serialize>(&mut self, key: &T) -> Result<(), E> {
        // keys must serialize as strings (serde_json's MapKeySerializer)
        self.top().count += 1;
        let at = self.ser.out.n;
        key.serialize(self.ser.reborrow())?;
        if at < NTOK {
            let t = self.ser.out.toks[at];
            if t.kind == K::Str && self.ser.out.n == at + 1 {
                self.ser.out.toks[at] = Tok::key(t.off, t.len, true, 0);
            } else {
                return Err(E);
            }
        }
        self.top().key_at = at;
        Ok(())
    }
    fn serialize_value<T: ?Sized + ser::Serialize>(&mut self, v: &T) -> Result<(), E> {
        let at = self.top().key_at;
        v.serialize(self.ser.reborrow())?;
        if at < NTOK {
            let t = self.ser.out.toks[at];
            self.ser.out.toks[at] = Tok::key(t.off, t.len, true, (self.ser.out.n - at - 1) as u16);
        }
        Ok(())
    }
    fn end(self) -> Result<(), E> {
        self.finish()
    }
}
impl<'o> ser::SerializeStruct for Compound<'o> {
    type Ok = ();
    type Error = E;
    fn serialize_field<T: ?Sized + ser::Serialize>(&mut self, key: &'static str, v: &T) -> Result<(), E> {
        self.field(key, v)
    }
    fn skip_field(&mut self, key: &'static str) -> Result<(), E> {
        self.skipped(key);
        Ok(())
    }
    fn end(self) -> Result<(), E> {
        self.finish()
    }
}
impl<'o> ser::SerializeStructVariant for Compound<'o> {
    type Ok = ();
    type Error = E;
    fn serialize_field<T: ?Sized + ser::Serialize>(&mut self, key: &'static str, v: &T) -> Result<(), E> {
        self.field(key, v)
    }
    fn skip_field(&mut self, key: &'static str) -> Result<(), E> {
        self.skipped(key);
        Ok(())
    }
    fn end(self) -> Result<(), E> {
        self.finish()
    }
}

impl<'o> ser::Serializer for Ser<'o> {
    type Ok = ();
    type Error = E;
    type SerializeSeq = Compound<'o>;
    type SerializeTuple = Compound<'o>;
    type SerializeTupleStruct = Compound<'o>;
    type SerializeTupleVariant = Compound<'o>;
    type SerializeMap = Compound<'o>;
    type SerializeStruct = Compound<'o>;
    type SerializeStructVariant = Compound<'o>;

    fn serialize_bool(self, v: bool) -> Result<(), E> {
        self.leaf(Tok::bool(v))
    }
    fn serialize_i8(self, v: i8) -> Result<(), E> {
        self.serialize_i64(v as i64)
    }
    fn serialize_i16(self, v: i16) -> Result<(), E> {
        self.serialize_i64(v as i64)
    }
    fn serialize_i32(self, v: i32) -> Result<(), E> {
        self.serialize_i64(v as i64)
    }
    fn serialize_i64(self, v: i64) -> Result<(), E> {
        self.leaf(Tok::i64(v))
    }
    fn serialize_u8(self, v: u8) -> Result<(), E> {
        self.serialize_u64(v as u64)
    }
    fn serialize_u16(self, v: u16) -> Result<(), E> {
        self.serialize_u64(v as u64)
    }
    fn serialize_u32(self, v: u32) -> Result<(), E> {
        self.serialize_u64(v as u64)
    }
    fn serialize_u64(self, v: u64) -> Result<(), E> {
        self.leaf(Tok::u64(v))
    }
    fn serialize_f32(self, v: f32) -> Result<(), E> {
        self.serialize_f64(v as f64)
    }
    fn serialize_f64(self, v: f64) -> Result<(), E> {
        // serde_json writes non-finite floats as null
        if v.is_finite() {
            self.leaf(Tok::f64(v))
        } else {
            self.leaf(Tok::NULL)
        }
    }
    fn serialize_char(self, v: char) -> Result<(), E> {
        let mut b = [0u8; 4];
        let s = v.encode_utf8(&mut b);
        self.string(s)
    }
    fn serialize_str(self, v: &str) -> Result<(), E> {
        self.string(v)
    }
    fn serialize_bytes(self, _v: &[u8]) -> Result<(), E> {
        Err(E)
    }
    fn serialize_none(self) -> Result<(), E> {
        self.leaf(Tok::NULL)
    }
    fn serialize_some<T: ?Sized + ser::Serialize>(self, v: &T) -> Result<(), E> {
        v.serialize(self)
    }
    fn serialize_unit(self) -> Result<(), E> {
        self.leaf(Tok::NULL)
    }
    fn serialize_unit_struct(self, _n: &'static str) -> Result<(), E> {
        self.leaf(Tok::NULL)
    }
    fn serialize_unit_variant(self, _n: &'static str, _i: u32, variant: &'static str) -> Result<(), E> {
        self.string(variant)
    }
    fn serialize_newtype_struct<T: ?Sized + ser::Serialize>(self, _n: &'static str, v: &T) -> Result<(), E> {
        v.serialize(self)
    }
    fn serialize_newtype_variant<T: ?Sized + ser::Serialize>(mut self, _n: &'static str, _i: u32, variant: &'static str, v: &T) -> Result<(), E> {
        let (map_at, key_at) = open_variant(self.out, variant);
        v.serialize(self.reborrow())?;
        close_variant(self.out, map_at, key_at);
        Ok(())
    }
    fn serialize_seq(self, _len: Option<usize>) -> Result<Compound<'o>, E> {
        Compound::start(self, false, None)
    }
    fn serialize_tuple(self, _len: usize) -> Result<Compound<'o>, E> {
        Compound::start(self, false, None)
    }
    fn serialize_tuple_struct(self, _n: &'static str, _len: usize) -> Result<Compound<'o>, E> {
        Compound::start(self, false, None)
    }
    fn serialize_tuple_variant(self, _n: &'static str, _i: u32, variant: &'static str, _len: usize) -> Result<Compound<'o>, E> {
        let outer = open_variant(self.out, variant);
        Compound::start(self, false, Some(outer))
    }
    fn serialize_map(self, _len: Option<usize>) -> Result<Compound<'o>, E> {
        Compound::start(self, true, None)
    }
    fn serialize_struct(self, _n: &'static str, _len: usize) -> Result<Compound<'o>, E> {
        Compound::start(self, true, None)
    }
    fn serialize_struct_variant(self, _n: &'static str, _i: u32, variant: &'static str, _len: usize) -> Result<Compound<'o>, E> {
        let outer = open_variant(self.out, variant);
        Compound::start(self, true, Some(outer))
    }
}

/// `T -> Doc` (the JSON value serde_json would produce, as tokens).
pub fn to_doc<'o, T: ser::Serialize>(v: &T, out: &'o mut Doc, template: Option<&'o Doc>) -> Result<(), E> {
    v.serialize(Ser { out, template })
}

/// `Doc -> T`.
pub fn from_doc<'d, T: de::Deserialize<'d>>(doc: &'d Doc) -> Result<T, E> {
    let mut d = De::new(doc);
    let v = T::deserialize(&mut d)?;
    // trailing tokens would be trailing characters in JSON text
    if d.pos != doc.n {
        return Err(E);
    }
    Ok(v)
}

/// Deserialize the value starting at token `pos`.
pub fn from_doc_at<'d, T: de::Deserialize<'d>>(doc: &'d Doc, pos: usize) -> Result<T, E> {
    let mut d = De { doc, pos };
    T::deserialize(&mut d)
}

pub fn next_pub(de: &mut De<'_>) -> Tok {
    let t = if de.pos < NTOK { de.doc.toks[de.pos] } else { Tok::PAD };
    de.pos += 1;
    t
}
