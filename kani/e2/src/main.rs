//! Native replay of a Kani counterexample against the normal build of /repo:
//! `verif-e2 <harness> '<json list of byte vectors>'`
//! exit 0 = harness body ran to the end (not reproduced), 101/1 = assertion
//! failed (reproduced; message on stderr), 3 = input outside the harness domain,
//! 2 = usage.
use std::panic::{catch_unwind, AssertUnwindSafe};
use verif_e2::src::{OutsideDomain, ReplaySrc};

fn main() {
    let args: Vec<String> = std::env::args().collect();
    if args.len() == 2 && args[1] == "--list" {
        for h in verif_e2::HARNESSES {
            println!("{}", h);
        }
        return;
    }
    if args.len() != 3 {
        eprintln!("usage: verif-e2 <harness> <json draws> | --list");
        std::process::exit(2);
    }
    let draws: Vec<Vec<u8>> = serde_json::from_str(&args[2]).expect("draws: json list of byte lists");
    let mut s = ReplaySrc::new(draws);
    let r = catch_unwind(AssertUnwindSafe(|| verif_e2::dispatch(&args[1], &mut s)));
    let notes: serde_json::Map<String, serde_json::Value> = s
        .notes
        .iter()
        .map(|(k, v)| (k.clone(), serde_json::Value::String(v.clone())))
        .collect();
    match r {
        Ok(true) => {
            println!("{}", serde_json::json!({"outcome": "passed", "inputs": notes}));
        }
        Ok(false) => {
            eprintln!("unknown harness {}", args[1]);
            std::process::exit(2);
        }
        Err(e) => {
            if e.is::<OutsideDomain>() {
                println!("{}", serde_json::json!({"outcome": "outside-domain", "inputs": notes}));
                std::process::exit(3);
            }
            let msg = e
                .downcast_ref::<String>()
                .cloned()
                .or_else(|| e.downcast_ref::<&str>().map(|s| s.to_string()))
                .unwrap_or_default();
            println!("{}", serde_json::json!({"outcome": "assertion-failed", "message": msg, "inputs": notes}));
            std::process::exit(1);
        }
    }
}
