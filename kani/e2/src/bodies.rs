//! Generic harness bodies over generated types. They touch generated code only
//! through traits (FromStr, TryFrom, Deserialize, Serialize, Display) and JSON
//! names; oracle data (member lists, bounds, schema trees) comes from the
//! schema, never from typify.

use crate::sch::same_leaf;
use crate::src::{encode_scalar, Src};
use crate::tok::{from_doc, to_doc, Doc, Tok, E, K};
use serde::de::DeserializeOwned;
use serde::Serialize;
use std::fmt::Write;
use std::str::FromStr;

// ------------------------------------------------------------ small helpers

pub struct Cap {
    pub buf: [u8; 32],
    pub len: usize,
}
impl Cap {
    pub fn new() -> Self {
        Cap { buf: [0; 32], len: 0 }
    }
}
impl Write for Cap {
    fn write_str(&mut self, s: &str) -> std::fmt::Result {
        let b = s.as_bytes();
        let mut i = 0;
        while i < b.len() {
            if self.len < 32 {
                self.buf[self.len] = b[i];
            }
            self.len += 1;
            i += 1;
        }
        Ok(())
    }
}

fn str_in(text: &str, members: &[&str]) -> bool {
    let t = text.as_bytes();
    let mut any = false;
    let mut k = 0;
    while k < members.len() {
        let m = members[k].as_bytes();
        if m.len() == t.len() {
            let mut same = true;
            let mut i = 0;
            while i < m.len() {
                same = same && m[i] == t[i];
                i += 1;
            }
            any = any || same;
        }
        k += 1;
    }
    any
}

// ------------------------------------------------------------ C11 / C05: string types

/// The text of a harness: scalars with concrete UTF-8 widths, symbolic code points.
pub fn text_of<'b, S: Src>(s: &mut S, widths: &[u8], buf: &'b mut [u8; 24]) -> &'b str {
    let mut at = 0;
    let mut i = 0;
    while i < widths.len() {
        let c = s.scalar(widths[i]);
        at = encode_scalar(buf, at, c, widths[i]);
        i += 1;
    }
    // SAFETY: valid UTF-8 by construction
    unsafe { std::str::from_utf8_unchecked(&buf[..at]) }
}

fn ser_string<T: Serialize>(x: &T, out: &mut Doc) -> Option<(u16, u16)> {
    if to_doc(x, out, None).is_err() || out.n != 1 {
        return None;
    }
    let t = out.toks[0];
    if t.kind == K::Str {
        Some((t.off, t.len))
    } else {
        None
    }
}

/// All conversions of a string-valued generated type agree with each other and
/// with `expect_ok` on `text`; accepted values serialize back to `text`.
pub fn string_conversions<T, S: Src>(s: &mut S, text: &str, expect_ok: bool)
where
    T: FromStr + DeserializeOwned + Serialize,
    T: for<'x> TryFrom<&'x str> + for<'x> TryFrom<&'x String> + TryFrom<String>,
{
    #[cfg(not(kani))]
    s.note("text", &text);
    let mut doc = Doc::new();
    doc.push_str(text);
    let parsed = T::from_str(text);
    let de: Result<T, E> = from_doc(&doc);
    #[cfg(not(kani))]
    {
        s.note("parse.is_ok", &parsed.is_ok());
        s.note("deserialize.is_ok", &de.is_ok());
        s.note("serde_json::from_str.is_ok", &serde_json::from_str::<T>(&crate::render::to_json(&doc)).is_ok());
    }
    assert!(parsed.is_ok() == de.is_ok(), "C11: FromStr and Deserialize disagree on a string");
    assert!(de.is_ok() == expect_ok, "C05: Deserialize accepts/rejects a string against the schema's constraint");
    assert!(parsed.is_ok() == expect_ok, "C05: FromStr accepts/rejects a string against the schema's constraint");
    let t1 = <T as TryFrom<&str>>::try_from(text);
    assert!(t1.is_ok() == parsed.is_ok(), "C11: TryFrom<&str> disagrees with FromStr");
    let owned = text.to_string();
    let t2 = <T as TryFrom<&String>>::try_from(&owned).is_ok();
    assert!(t2 == parsed.is_ok(), "C11: TryFrom<&String> disagrees with FromStr");
    let t3 = <T as TryFrom<String>>::try_from(owned);
    assert!(t3.is_ok() == parsed.is_ok(), "C11: TryFrom<String> disagrees with FromStr");
    // equal values when Ok: both serialize to the original text
    if let (Ok(a), Ok(b)) = (&parsed, &de) {
        let mut oa = Doc::new();
        let mut ob = Doc::new();
        let sa = ser_string(a, &mut oa);
        let sb = ser_string(b, &mut ob);
        assert!(sa.is_some() && sb.is_some(), "C11: string-valued type does not serialize as a JSON string");
        if let (Some((ao, al)), Some((bo, bl))) = (sa, sb) {
            assert!(oa.bytes_eq(ao, al, text), "C11: parsed value does not serialize to the parsed string");
            assert!(ob.bytes_eq(bo, bl, text), "C03: deserialized string does not serialize to the same string");
        }
    }
    crate::cover!(s, expect_ok, "accepted string");
    crate::cover!(s, !expect_ok, "rejected string");
    std::mem::forget((parsed, de, t1, t3));
}

/// `Display` prints exactly the string serialization writes (for a value
/// obtained by deserializing `text`).
pub fn display_matches<T, S: Src>(s: &mut S, text: &str)
where
    T: DeserializeOwned + Serialize + std::fmt::Display,
{
    let mut doc = Doc::new();
    doc.push_str(text);
    let de: Result<T, E> = from_doc(&doc);
    if let Ok(x) = &de {
        let mut cap = Cap::new();
        let r = write!(cap, "{}", x);
        let mut out = Doc::new();
        let ser = ser_string(x, &mut out);
        assert!(r.is_ok() && ser.is_some(), "C11: Display or Serialize failed");
        if let Some((off, len)) = ser {
            let mut same = cap.len == len as usize;
            let mut i = 0;
            while i < 32 && i < len as usize {
                same = same && cap.buf[i] == out.bytes[off as usize + i];
                i += 1;
            }
            assert!(same, "C11: Display prints something else than serialization writes");
        }
        crate::cover!(s, true, "display compared");
    }
    std::mem::forget(de);
}

/// String enum: free strings of the given widths.
pub fn str_enum_free<T, S: Src>(s: &mut S, members: &'static [&'static str], widths: &'static [u8])
where
    T: FromStr + DeserializeOwned + Serialize + std::fmt::Display,
    T: for<'x> TryFrom<&'x str> + for<'x> TryFrom<&'x String> + TryFrom<String>,
{
    let mut buf = [0u8; 24];
    let text = text_of(s, widths, &mut buf);
    let expect = str_in(text, members);
    string_conversions::<T, S>(s, text, expect);
    display_matches::<T, S>(s, text);
}

#[derive(Clone, Copy)]
pub enum Near {
    /// the member itself
    Exact,
    /// the scalar starting at byte `at` (of UTF-8 width `w`) replaced by any scalar of that width
    Subst { at: usize, w: u8 },
    /// one scalar of width `w` appended
    Append { w: u8 },
    /// the last scalar dropped
    Truncate,
}

/// String enum: a perturbation of member `m`.
pub fn str_enum_near<T, S: Src>(s: &mut S, members: &'static [&'static str], m: usize, op: Near)
where
    T: FromStr + DeserializeOwned + Serialize + std::fmt::Display,
    T: for<'x> TryFrom<&'x str> + for<'x> TryFrom<&'x String> + TryFrom<String>,
{
    let base = members[m];
    let bb = base.as_bytes();
    let mut buf = [0u8; 24];
    let mut i = 0;
    while i < bb.len() {
        buf[i] = bb[i];
        i += 1;
    }
    let mut end = bb.len();
    match op {
        Near::Exact => {}
        Near::Subst { at, w } => {
            let c = s.scalar(w);
            encode_scalar(&mut buf, at, c, w);
        }
        Near::Append { w } => {
            let c = s.scalar(w);
            end = encode_scalar(&mut buf, bb.len(), c, w);
        }
        Near::Truncate => {
            if end > 0 {
                end -= 1;
                while end > 0 && bb[end] & 0xC0 == 0x80 {
                    end -= 1;
                }
            }
        }
    }
    // SAFETY: a valid string with whole scalars replaced/added/removed
    let text = unsafe { std::str::from_utf8_unchecked(&buf[..end]) };
    let expect = str_in(text, members);
    string_conversions::<T, S>(s, text, expect);
    display_matches::<T, S>(s, text);
}

/// Constrained string newtype (minLength / maxLength): strings of the given widths.
pub fn str_constrained<T, S: Src>(s: &mut S, min: Option<u32>, max: Option<u32>, widths: &'static [u8])
where
    T: FromStr + DeserializeOwned + Serialize,
    T: for<'x> TryFrom<&'x str> + for<'x> TryFrom<&'x String> + TryFrom<String>,
{
    let mut buf = [0u8; 24];
    let text = text_of(s, widths, &mut buf);
    let k = widths.len() as u32;
    let expect = min.map_or(true, |m| k >= m) && max.map_or(true, |m| k <= m);
    string_conversions::<T, S>(s, text, expect);
}

/// Plain string newtype with Display (unconstrained alias).
pub fn str_plain<T, S: Src>(s: &mut S, widths: &'static [u8])
where
    T: FromStr + DeserializeOwned + Serialize + std::fmt::Display,
{
    let mut buf = [0u8; 24];
    let text = text_of(s, widths, &mut buf);
    let parsed = T::from_str(text);
    let mut doc = Doc::new();
    doc.push_str(text);
    let de: Result<T, E> = from_doc(&doc);
    assert!(parsed.is_ok() && de.is_ok(), "C11: unconstrained string newtype rejects a string");
    display_matches::<T, S>(s, text);
    std::mem::forget((parsed, de));
}

/// String deny list (`not: {enum: [...]}`): only TryFrom<String> + Deserialize exist.
pub fn str_deny<T, S: Src>(s: &mut S, denied: &'static [&'static str], text_kind: TextKind)
where
    T: DeserializeOwned + Serialize + TryFrom<String>,
{
    let mut buf = [0u8; 24];
    let text: &str = match text_kind {
        TextKind::Free(widths) => text_of(s, widths, &mut buf),
        TextKind::Member(m) => denied[m],
    };
    #[cfg(not(kani))]
    s.note("text", &text);
    let expect = !str_in(text, denied);
    let mut doc = Doc::new();
    doc.push_str(text);
    let de: Result<T, E> = from_doc(&doc);
    let t = <T as TryFrom<String>>::try_from(text.to_string());
    assert!(de.is_ok() == expect, "C05: Deserialize accepts a denied string or rejects an allowed one");
    assert!(t.is_ok() == expect, "C05: TryFrom<String> accepts a denied string or rejects an allowed one");
    crate::cover!(s, expect, "allowed string");
    crate::cover!(s, !expect, "denied string");
    std::mem::forget((de, t));
}

#[derive(Clone, Copy)]
pub enum TextKind {
    Free(&'static [u8]),
    Member(usize),
}

// ------------------------------------------------------------ C05: typed integer enums / deny lists

/// `allow == true`: enum of integers (membership required); `false`: deny list.
pub fn int_newtype<T, S: Src>(s: &mut S, list: &'static [i64], allow: bool)
where
    T: DeserializeOwned + Serialize + TryFrom<i64>,
{
    let n = s.i64();
    #[cfg(not(kani))]
    s.note("n", &n);
    let mut is_in = false;
    let mut i = 0;
    while i < list.len() {
        is_in = is_in || list[i] == n;
        i += 1;
    }
    let expect = is_in == allow;
    let t = <T as TryFrom<i64>>::try_from(n);
    let mut doc = Doc::new();
    doc.push(Tok::i64(n));
    let de: Result<T, E> = from_doc(&doc);
    assert!(t.is_ok() == expect, "C05: TryFrom<i64> disagrees with the enumerated values");
    assert!(de.is_ok() == expect, "C05: Deserialize disagrees with the enumerated values");
    if let Ok(x) = &de {
        let mut out = Doc::new();
        let r = to_doc(x, &mut out, None);
        assert!(r.is_ok() && out.n == 1 && same_leaf(&out, 0, &doc, 0), "C03: integer newtype does not serialize to the same integer");
    }
    // a JSON value of another type is rejected
    let mut other = Doc::new();
    other.push(Tok::bool(true));
    let de2: Result<T, E> = from_doc(&other);
    assert!(de2.is_err(), "C05: integer newtype accepts a boolean");
    crate::cover!(s, expect, "accepted integer");
    crate::cover!(s, !expect, "rejected integer");
    std::mem::forget((t, de, de2));
}

/// Integer deny list. typify backs it with the numeric type inferred from the
/// denied values (f64 for JSON numbers), so only Deserialize/Serialize are used.
/// `big == false`: |n| <= 2^53 (exactly representable in an f64);
/// `big == true`: the rest of i64.
pub fn int_deny<T, S: Src>(s: &mut S, list: &'static [i64], big: bool)
where
    T: DeserializeOwned + Serialize,
{
    let n = s.i64();
    const LIM: i64 = 1 << 53;
    s.assume((n >= -LIM && n <= LIM) != big);
    #[cfg(not(kani))]
    s.note("n", &n);
    let mut is_in = false;
    let mut i = 0;
    while i < list.len() {
        is_in = is_in || list[i] == n;
        i += 1;
    }
    let mut doc = Doc::new();
    doc.push(Tok::i64(n));
    let de: Result<T, E> = from_doc(&doc);
    assert!(de.is_ok() == !is_in, "C05: Deserialize accepts a denied integer or rejects an allowed one");
    if let Ok(x) = &de {
        let mut out = Doc::new();
        let r = to_doc(x, &mut out, None);
        let same = r.is_ok()
            && out.n == 1
            && if out.toks[0].kind == K::F64 {
                let f = f64::from_bits(out.toks[0].num);
                f == n as f64 && (f as i64) == n
            } else {
                same_leaf(&out, 0, &doc, 0)
            };
        assert!(same, "C03: integer of a deny-list newtype is altered by a round trip");
    }
    let mut other = Doc::new();
    other.push(Tok::bool(true));
    let de2: Result<T, E> = from_doc(&other);
    assert!(de2.is_err(), "C05: integer deny-list newtype accepts a boolean");
    crate::cover!(s, !is_in, "allowed integer");
    crate::cover!(s, is_in, "denied integer");
    std::mem::forget((de, de2));
}

