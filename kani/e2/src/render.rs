//! Native only: render a token document as JSON text (absent members and
//! padding omitted), for replay reports and for cross-checking the in-memory
//! deserializer against `serde_json::from_str` on the same instance.
use crate::tok::{Doc, K, NTOK};

pub fn to_json(doc: &Doc) -> String {
    let mut out = String::new();
    if doc.n == 0 {
        return out;
    }
    value(doc, 0, &mut out);
    out
}

fn value(doc: &Doc, pos: usize, out: &mut String) -> usize {
    if pos >= NTOK {
        out.push_str("<overflow>");
        return pos + 1;
    }
    let t = doc.toks[pos];
    match t.kind {
        K::Pad => {
            out.push_str("<pad>");
            pos + 1
        }
        K::Null => {
            out.push_str("null");
            pos + 1
        }
        K::Bool => {
            out.push_str(if t.num != 0 { "true" } else { "false" });
            pos + 1
        }
        K::I64 => {
            out.push_str(&(t.num as i64).to_string());
            pos + 1
        }
        K::U64 => {
            out.push_str(&t.num.to_string());
            pos + 1
        }
        K::F64 => {
            out.push_str(&serde_json::Number::from_f64(f64::from_bits(t.num)).map(|n| n.to_string()).unwrap_or("null".into()));
            pos + 1
        }
        K::Str => {
            out.push_str(&serde_json::to_string(doc.str_at(t.off, t.len)).unwrap());
            pos + 1
        }
        K::Seq => {
            out.push('[');
            let mut p = pos + 1;
            for i in 0..t.n {
                if i > 0 {
                    out.push(',');
                }
                p = value(doc, p, out);
            }
            out.push(']');
            pos + 1 + t.span as usize
        }
        K::Map => {
            out.push('{');
            let mut p = pos + 1;
            let mut first = true;
            for _ in 0..t.n {
                if p >= NTOK {
                    break;
                }
                let k = doc.toks[p];
                if !k.is_key() {
                    out.push_str("<bad key>");
                    break;
                }
                if k.present {
                    if !first {
                        out.push(',');
                    }
                    first = false;
                    out.push_str(&serde_json::to_string(doc.key_name(k)).unwrap());
                    out.push(':');
                    value(doc, p + 1, out);
                }
                p += 1 + k.span as usize;
            }
            out.push('}');
            pos + 1 + t.span as usize
        }
        K::Key | K::KeyS => {
            out.push_str("<key>");
            pos + 1
        }
    }
}
