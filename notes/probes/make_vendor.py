#!/usr/bin/env python3
"""Scratch script used in the design session: build a cargo directory source
from the already-unpacked registry sources, for every package in a Cargo.lock.
usage: make_vendor.py <Cargo.lock> <out_dir>"""
import re, os, shutil, json, glob, sys
lock = open(sys.argv[1]).read(); out = sys.argv[2]
pk = re.findall(r'\[\[package\]\]\nname = "([^"]+)"\nversion = "([^"]+)"\n(?:source = "([^"]+)"\n)?(?:checksum = "([^"]+)"\n)?', lock)
srcs = glob.glob(os.path.expanduser('~/.cargo/registry/src/*'))
os.makedirs(out, exist_ok=True)
missing = []
for name, ver, source, cks in pk:
    if not source: continue
    d = next((os.path.join(s, f'{name}-{ver}') for s in srcs if os.path.isdir(os.path.join(s, f'{name}-{ver}'))), None)
    if not d: missing.append((name, ver)); continue
    dst = os.path.join(out, f'{name}-{ver}')
    if not os.path.exists(dst): shutil.copytree(d, dst, symlinks=True)
    json.dump({"files": {}, "package": cks}, open(os.path.join(dst, '.cargo-checksum.json'), 'w'))
print('missing:', missing)
