use crate::*;
use schemars::schema::{Metadata, NumberValidation};
use crate::type_entry::TypeEntryDetails;

fn opt_f64() -> Option<f64> {
    if kani::any() {
        let x: f64 = kani::any();
        kani::assume(x.is_finite());
        Some(x)
    } else {
        None
    }
}

fn type_range(name: &str) -> Option<(f64, f64, bool)> {
    // (min, max, nonzero)
    Some(match name {
        "i8" => (i8::MIN as f64, i8::MAX as f64, false),
        "u8" => (u8::MIN as f64, u8::MAX as f64, false),
        "i16" => (i16::MIN as f64, i16::MAX as f64, false),
        "u16" => (u16::MIN as f64, u16::MAX as f64, false),
        "i32" => (i32::MIN as f64, i32::MAX as f64, false),
        "u32" => (u32::MIN as f64, u32::MAX as f64, false),
        "i64" => (i64::MIN as f64, i64::MAX as f64, false),
        "u64" => (u64::MIN as f64, u64::MAX as f64, false),
        "::std::num::NonZeroU8" => (1.0, u8::MAX as f64, true),
        "::std::num::NonZeroU16" => (1.0, u16::MAX as f64, true),
        "::std::num::NonZeroU32" => (1.0, u32::MAX as f64, true),
        "::std::num::NonZeroU64" => (1.0, u64::MAX as f64, true),
        _ => return None,
    })
}

#[kani::proof]
#[kani::unwind(12)]
fn probe_convert_integer_noformat() {
    let ts = empty_ts();
    let validation = Some(Box::new(NumberValidation {
        multiple_of: None,
        maximum: opt_f64(),
        exclusive_maximum: opt_f64(),
        minimum: opt_f64(),
        exclusive_minimum: opt_f64(),
    }));
    let v = validation.as_ref().unwrap();
    let (mn, emn, mx, emx) = (v.minimum, v.exclusive_minimum, v.maximum, v.exclusive_maximum);
    let metadata: Option<Box<Metadata>> = None;
    let format: Option<String> = None;
    let res = ts.convert_integer(&metadata, &validation, &format);
    let (te, _) = res.unwrap();
    let TypeEntryDetails::Integer(name) = &te.details else { panic!() };
    let (tmin, tmax, _nz) = type_range(name.as_str()).unwrap();

    // probe integer n (i64 domain)
    let n: i64 = kani::any();
    let x = n as f64;
    let admitted = mn.map_or(true, |m| x >= m)
        && emn.map_or(true, |m| x > m)
        && mx.map_or(true, |m| x <= m)
        && emx.map_or(true, |m| x < m);
    if admitted {
        assert!(x >= tmin && x <= tmax);
    }
    std::mem::forget(te);
}

#[kani::proof]
fn probe_trivial() {
    let x: u8 = kani::any();
    assert!(x as u32 + 1 > 0);
}

#[kani::proof]
fn probe_f64_only() {
    let x: f64 = kani::any();
    kani::assume(x.is_finite());
    let n: i64 = kani::any();
    let y = n as f64;
    assert!(!(y > x && y < x));
}

#[kani::proof]
fn probe_f64_max() {
    let x: f64 = kani::any();
    let y: f64 = kani::any();
    kani::assume(x.is_finite() && y.is_finite());
    let m = x.max(y + 1.0);
    assert!(m >= x);
    assert!((x - y).abs() >= 0.0);
}

#[kani::proof]
fn probe_typespace_default() {
    let ts = TypeSpace::default();
    assert!(ts.next_id == 1);
}

#[kani::proof]
#[kani::unwind(8)]
fn probe_str_eq() {
    let b: [u8; 3] = kani::any();
    kani::assume(b[0] < 128 && b[1] < 128 && b[2] < 128);
    let s = std::str::from_utf8(&b).unwrap();
    if s == "abc" { assert!(b[0] == b'a'); }
}

#[kani::proof]
#[kani::unwind(8)]
fn probe_btreemap_string() {
    let mut m = std::collections::BTreeMap::<String, u32>::new();
    m.insert("abc".to_string(), 1);
    m.insert("abd".to_string(), 2);
    assert!(m.get("abc") == Some(&1));
}

#[kani::proof]
#[kani::unwind(8)]
fn probe_hashset() {
    let mut m = std::collections::HashSet::<u32>::new();
    m.insert(1);
    assert!(m.contains(&1));
}

#[kani::proof]
#[kani::unwind(40)]
fn probe_syn_ident() {
    let r = syn::parse_str::<syn::Ident>("abc");
    assert!(r.is_ok());
}

#[kani::proof]
#[kani::unwind(40)]
fn probe_pm2_new() {
    let t = proc_macro2::TokenStream::new();
    assert!(t.is_empty());
}

#[kani::proof]
#[kani::unwind(40)]
fn probe_pm2_fromstr() {
    use std::str::FromStr;
    let t = proc_macro2::TokenStream::from_str("abc");
    assert!(t.is_ok());
}

#[kani::proof]
#[kani::unwind(40)]
fn probe_pm2_ident() {
    let t = proc_macro2::Ident::new("abc", proc_macro2::Span::call_site());
    assert!(t == "abc");
}


pub(crate) fn empty_ts() -> TypeSpace {
    TypeSpace {
        next_id: 1,
        definitions: Default::default(),
        id_to_entry: Default::default(),
        type_to_id: Default::default(),
        name_to_id: Default::default(),
        ref_to_id: Default::default(),
        uses_chrono: false,
        uses_uuid: false,
        uses_serde_json: false,
        uses_regress: false,
        settings: TypeSpaceSettings {
            type_mod: None,
            extra_derives: Vec::new(),
            struct_builder: false,
            unknown_crates: UnknownPolicy::Generate,
            crates: Default::default(),
            map_type: MapType(syn::Type::Verbatim(proc_macro2::TokenStream::new())),
            patch: Default::default(),
            replace: Default::default(),
            convert: Vec::new(),
        },
        cache: Default::default(),
        defaults: Default::default(),
    }
}

fn any_str<const N: usize>(buf: &mut [u8; N]) -> &str {
    let len: usize = kani::any();
    kani::assume(len <= N);
    for i in 0..N { buf[i] = kani::any(); }
    match std::str::from_utf8(&buf[..len]) {
        Ok(s) => s,
        Err(_) => { kani::assume(false); unreachable!() }
    }
}

#[kani::proof]
#[kani::unwind(6)]
fn probe_string_validator() {
    use crate::util::StringValidator;
    let mut buf = [0u8; 4];
    let s = any_str(&mut buf);
    let max: Option<u32> = kani::any();
    let min: Option<u32> = kani::any();
    let sv = schemars::schema::StringValidation { max_length: max, min_length: min, pattern: None };
    let v = StringValidator::new(&Name::Unknown, Some(&sv));
    let v = match v { Ok(v) => v, Err(_) => panic!() };
    let n = s.chars().count() as u32;
    let expect = max.map_or(true, |m| n <= m) && min.map_or(true, |m| n >= m);
    assert!(v.is_valid(s) == expect);
}

#[kani::proof]
#[kani::unwind(6)]
fn probe_heck_snake() {
    use heck::ToSnakeCase;
    let mut buf = [0u8; 2];
    let s = any_str(&mut buf);
    kani::assume(s.is_ascii());
    let out = s.to_snake_case();
    assert!(out.len() <= 4);
    std::mem::forget(out);
}

fn noop_stub() {}

#[kani::proof]
#[kani::unwind(40)]
#[kani::stub(std::rt::thread_cleanup, noop_stub)]
fn probe_pm2_ident_stub() {
    let t = proc_macro2::Ident::new("abc", proc_macro2::Span::call_site());
    assert!(t == "abc");
}

#[kani::proof]
#[kani::unwind(40)]
#[kani::stub(std::rt::thread_cleanup, noop_stub)]
fn probe_sanitize_concrete() {
    let s = crate::util::sanitize("type", crate::util::Case::Snake);
    assert!(s == "type_");
    let s = crate::util::sanitize("foo-bar", crate::util::Case::Pascal);
    assert!(s == "FooBar");
}

#[kani::proof]
#[kani::unwind(40)]
#[kani::stub(std::rt::thread_cleanup, noop_stub)]
fn probe_public_api_integer() {
    use schemars::schema::*;
    let mut ts = TypeSpace::default();
    let max: f64 = kani::any();
    kani::assume(max.is_finite());
    let schema = Schema::Object(SchemaObject {
        instance_type: Some(InstanceType::Integer.into()),
        number: Some(Box::new(NumberValidation { maximum: Some(max), ..Default::default() })),
        ..Default::default()
    });
    let id = ts.add_type(&schema).unwrap();
    let ty = ts.get_type(&id).unwrap();
    let is_u8 = match ty.details() { TypeDetails::Builtin(name) => name == "u8", _ => panic!() };
    if max == 255.0 { assert!(is_u8); }
}

unsafe fn cu_stub<R, F: FnOnce() -> R>(f: F) -> std::result::Result<R, Box<dyn std::any::Any + Send>> { Ok(f()) }

// ---------- P3: x-rust-type decision with symbolic configured version ----------
fn ref_caret_matches(maj: u64, min: u64, pat: u64, v: (u64, u64, u64)) -> bool {
    // ^maj.min.pat (all parts given), no prerelease
    let (a, b, c) = v;
    if a != maj { return false; }
    if maj > 0 {
        b > min || (b == min && c >= pat)
    } else if min > 0 {
        b == min && c >= pat
    } else {
        b == 0 && c == pat
    }
}

#[kani::proof]
#[kani::unwind(16)]
#[kani::stub(std::rt::thread_cleanup, noop_stub)]
fn probe_rust_extension() {
    use schemars::schema::*;
    let mut ts = empty_ts();
    let (a, b, c): (u64, u64, u64) = (kani::any(), kani::any(), kani::any());
    let which: u8 = kani::any();
    kani::assume(which < 4);
    let policy_sel: u8 = kani::any();
    kani::assume(policy_sel < 3);
    ts.settings.unknown_crates = match policy_sel { 0 => UnknownPolicy::Generate, 1 => UnknownPolicy::Allow, _ => UnknownPolicy::Deny };
    let vers = match which {
        0 => None,
        1 => Some(CrateVers::Any),
        2 => Some(CrateVers::Never),
        _ => Some(CrateVers::Version(semver::Version::new(a, b, c))),
    };
    if let Some(v) = vers {
        ts.settings.crates.insert("util".to_string(), CrateSpec { version: v, rename: None });
    }
    let mut so = SchemaObject::default();
    so.instance_type = Some(InstanceType::String.into());
    so.extensions.insert("x-rust-type".to_string(), serde_json::json!({
        "crate": "util", "version": "1.2.3", "path": "util::Thing"
    }));
    let got = ts.convert_rust_extension(&so).is_some();
    let expect = match which {
        0 => policy_sel == 1,
        1 => true,
        2 => false,
        _ => ref_caret_matches(1, 2, 3, (a, b, c)),
    };
    assert!(got == expect);
}

// ---------- P4: break_cycles on a symbolic 3-node graph ----------
use crate::type_entry::{TypeEntry, TypeEntryStruct, StructProperty, StructPropertyRename, StructPropertyState, SchemaWrapper};

fn mk_struct(name: &str, kids: &[u64]) -> TypeEntry {
    TypeEntryDetails::Struct(TypeEntryStruct {
        name: name.to_string(),
        rename: None,
        description: None,
        default: None,
        properties: kids.iter().map(|k| StructProperty {
            name: "p".to_string(),
            rename: StructPropertyRename::None,
            state: StructPropertyState::Required,
            description: None,
            type_id: TypeId(*k),
        }).collect(),
        deny_unknown_fields: false,
        schema: SchemaWrapper(schemars::schema::Schema::Bool(true)),
    }).into()
}

fn child_ids(ts: &TypeSpace, id: u64) -> Vec<u64> {
    match &ts.id_to_entry.get(&TypeId(id)).unwrap().details {
        TypeEntryDetails::Struct(s) => s.properties.iter().map(|p| p.type_id.0).collect(),
        TypeEntryDetails::Option(t) => vec![t.0],
        _ => vec![],
    }
}

#[kani::proof]
#[kani::unwind(12)]
fn probe_break_cycles() {
    const N: u64 = 2;
    let mut ts = empty_ts();
    // ids 1..=N are structs with 2 props each, pointing to symbolic ids in 1..=N+1; N+1 is a leaf.
    ts.next_id = N + 2;
    let mut edges = [[0u64; 2]; N as usize];
    for i in 0..N as usize {
        for j in 0..2 {
            let k: u64 = kani::any();
            kani::assume(k >= 1 && k <= N + 1);
            edges[i][j] = k;
        }
        ts.id_to_entry.insert(TypeId(i as u64 + 1), mk_struct("S", &edges[i]));
    }
    ts.id_to_entry.insert(TypeId(N + 1), TypeEntryDetails::Boolean.into());
    ts.break_cycles(1..N + 1);
    // acyclic over by-value edges: no node among 1..=N reaches itself via struct props in <= N steps
    for s in 1..=N {
        // reach set by bounded BFS depth N
        let mut frontier = child_ids(&ts, s);
        for _ in 0..N {
            let mut next = Vec::new();
            for f in &frontier {
                assert!(*f != s);
                if *f >= 1 && *f <= N { next.extend(child_ids(&ts, *f)); }
            }
            frontier = next;
        }
    }
}

// ---------- P7: assign_type idempotence ----------
#[kani::proof]
#[kani::unwind(8)]
fn probe_assign_type() {
    let mut ts = empty_ts();
    let a: u64 = kani::any();
    let b: u64 = kani::any();
    let ka: u8 = kani::any();
    let kb: u8 = kani::any();
    fn mk(k: u8, id: u64) -> TypeEntry {
        match k % 4 {
            0 => TypeEntryDetails::Option(TypeId(id)).into(),
            1 => TypeEntryDetails::Box(TypeId(id)).into(),
            2 => TypeEntryDetails::Vec(TypeId(id)).into(),
            _ => TypeEntryDetails::Array(TypeId(id), 3).into(),
        }
    }
    let i1 = ts.assign_type(mk(ka, a));
    let i2 = ts.assign_type(mk(kb, b));
    let n = ts.next_id;
    let i3 = ts.assign_type(mk(ka, a));
    assert!(i3 == i1);
    assert!(ts.next_id == n);
    if ka % 4 == kb % 4 && a == b { assert!(i1 == i2); } else { assert!(i1 != i2); }
}

#[kani::proof]
#[kani::unwind(6)]
fn probe_assign_type2() {
    let mut ts = empty_ts();
    let a: u64 = kani::any();
    let b: u64 = kani::any();
    let i1 = ts.assign_type(TypeEntryDetails::Option(TypeId(a)).into());
    let i2 = ts.assign_type(TypeEntryDetails::Option(TypeId(b)).into());
    let n = ts.next_id;
    let i3 = ts.assign_type(TypeEntryDetails::Option(TypeId(a)).into());
    assert!(i3 == i1);
    assert!(ts.next_id == n);
    assert!((i1 == i2) == (a == b));
    std::mem::forget(ts);
}

#[kani::proof]
#[kani::unwind(8)]
fn probe_break_cycles2() {
    // one struct node (id 1) with one property pointing at symbolic id in {1,2}; 2 is a leaf
    let mut ts = empty_ts();
    ts.next_id = 3;
    let k: u64 = kani::any();
    kani::assume(k == 1 || k == 2);
    ts.id_to_entry.insert(TypeId(1), mk_struct("S", &[k]));
    ts.id_to_entry.insert(TypeId(2), TypeEntryDetails::Boolean.into());
    ts.break_cycles(1..2);
    let kid = child_ids(&ts, 1)[0];
    assert!(kid != 1);
    if k == 2 { assert!(kid == 2); assert!(ts.next_id == 3); }
    std::mem::forget(ts);
}

fn any_it() -> schemars::schema::InstanceType {
    use schemars::schema::InstanceType::*;
    let k: u8 = kani::any();
    kani::assume(k < 7);
    match k { 0 => Null, 1 => Boolean, 2 => Object, 3 => Array, 4 => Number, 5 => String, _ => Integer }
}
fn any_its() -> Option<schemars::schema::SingleOrVec<schemars::schema::InstanceType>> {
    use schemars::schema::SingleOrVec;
    let k: u8 = kani::any();
    kani::assume(k < 3);
    match k {
        0 => None,
        1 => Some(SingleOrVec::Single(Box::new(any_it()))),
        _ => Some(SingleOrVec::Vec(vec![any_it(), any_it()])),
    }
}
fn admits(s: &Option<schemars::schema::SingleOrVec<schemars::schema::InstanceType>>, t: schemars::schema::InstanceType) -> bool {
    use schemars::schema::{SingleOrVec, InstanceType};
    let one = |x: InstanceType| x == t || (x == InstanceType::Number && t == InstanceType::Integer);
    match s {
        None => true,
        Some(SingleOrVec::Single(x)) => one(**x),
        Some(SingleOrVec::Vec(v)) => v.iter().any(|x| one(*x)),
    }
}

#[kani::proof]
#[kani::unwind(8)]
fn probe_merge_instance_types() {
    use schemars::schema::*;
    let a = any_its();
    let b = any_its();
    let sa = Schema::Object(SchemaObject { instance_type: a.clone(), ..Default::default() });
    let sb = Schema::Object(SchemaObject { instance_type: b.clone(), ..Default::default() });
    let defs = std::collections::BTreeMap::new();
    let m = crate::merge::merge_all(&[sa, sb], &defs);
    let t = any_it();
    let both = admits(&a, t) && admits(&b, t);
    let got = match &m {
        Schema::Bool(x) => *x,
        Schema::Object(o) => admits(&o.instance_type, t),
    };
    assert!(got == both);
    std::mem::forget(m);
}

fn stub_id_for_schema<'a>(_ts: &mut TypeSpace, _n: Name, _s: &'a schemars::schema::Schema) -> Result<(TypeId, &'a Option<Box<schemars::schema::Metadata>>)> {
    Err(Error::InvalidValue)
}
fn any_opt_u64() -> Option<u64> { if kani::any() { Some(kani::any()) } else { None } }
fn stub_req_parse(_s: &str) -> std::result::Result<semver::VersionReq, semver::Error> {
    // one symbolic caret/tilde/exact/gt/ge/lt/le comparator without prerelease
    let k: u8 = kani::any();
    kani::assume(k < 7);
    let op = match k { 0 => semver::Op::Exact, 1 => semver::Op::Greater, 2 => semver::Op::GreaterEq, 3 => semver::Op::Less, 4 => semver::Op::LessEq, 5 => semver::Op::Tilde, _ => semver::Op::Caret };
    let minor = any_opt_u64();
    let patch = if minor.is_some() { any_opt_u64() } else { None };
    Ok(semver::VersionReq { comparators: vec![semver::Comparator { op, major: kani::any(), minor, patch, pre: semver::Prerelease::EMPTY }] })
}

#[kani::proof]
#[kani::unwind(16)]
#[kani::stub(std::rt::thread_cleanup, noop_stub)]
#[kani::stub(crate::TypeSpace::id_for_schema, stub_id_for_schema)]
#[kani::stub(semver::VersionReq::parse, stub_req_parse)]
fn probe_rust_extension2() {
    use schemars::schema::*;
    let mut ts = empty_ts();
    let (a, b, c): (u64, u64, u64) = (kani::any(), kani::any(), kani::any());
    let which: u8 = kani::any();
    kani::assume(which < 4);
    let policy_sel: u8 = kani::any();
    kani::assume(policy_sel < 3);
    ts.settings.unknown_crates = match policy_sel { 0 => UnknownPolicy::Generate, 1 => UnknownPolicy::Allow, _ => UnknownPolicy::Deny };
    let vers = match which {
        0 => None,
        1 => Some(CrateVers::Any),
        2 => Some(CrateVers::Never),
        _ => Some(CrateVers::Version(semver::Version::new(a, b, c))),
    };
    if let Some(v) = vers {
        ts.settings.crates.insert("util".to_string(), CrateSpec { version: v, rename: None });
    }
    let mut so = SchemaObject::default();
    so.instance_type = Some(InstanceType::String.into());
    so.extensions.insert("x-rust-type".to_string(), serde_json::json!({
        "crate": "util", "version": "1.2.3", "path": "util::Thing"
    }));
    let got = ts.convert_rust_extension(&so).is_some();
    // weak oracle for the probe: the table cells not involving semver
    match which {
        0 => assert!(got == (policy_sel == 1)),
        1 => assert!(got),
        2 => assert!(!got),
        _ => {}
    }
    std::mem::forget(ts);
}

#[kani::proof]
#[kani::unwind(6)]
fn probe_semver_only() {
    let req = stub_req_parse("x").unwrap();
    let v = semver::Version::new(kani::any(), kani::any(), kani::any());
    let m = req.matches(&v);
    let c = &req.comparators[0];
    if c.op == semver::Op::Exact && c.minor.is_some() && c.patch.is_some() {
        assert!(m == (v.major == c.major && Some(v.minor) == c.minor && Some(v.patch) == c.patch));
    }
    std::mem::forget(req);
}

#[kani::proof]
#[kani::unwind(8)]
fn probe_merge_it_direct() {
    let a = any_its();
    let b = any_its();
    let m = crate::merge::merge_so_instance_type(a.as_ref(), b.as_ref());
    let t = any_it();
    let both = admits(&a, t) && admits(&b, t);
    let got = match &m {
        Err(()) => false,
        Ok(o) => admits(o, t),
    };
    assert!(got == both);
    std::mem::forget(m); std::mem::forget(a); std::mem::forget(b);
}

#[kani::proof]
#[kani::unwind(8)]
fn probe_merge_array_len() {
    use schemars::schema::ArrayValidation;
    let a = ArrayValidation { min_items: kani::any(), max_items: kani::any(), ..Default::default() };
    let b = ArrayValidation { min_items: kani::any(), max_items: kani::any(), ..Default::default() };
    let defs = std::collections::BTreeMap::new();
    let m = crate::merge::merge_so_array(Some(&a), Some(&b), &defs);
    let len: u32 = kani::any();
    let ok = |v: &ArrayValidation| v.min_items.map_or(true, |x| len >= x) && v.max_items.map_or(true, |x| len <= x);
    let both = ok(&a) && ok(&b);
    let got = match &m { Err(()) => false, Ok(Some(v)) => ok(v), Ok(None) => true };
    assert!(got == both);
    std::mem::forget(m);
}

fn stub_from_value<T: serde::de::DeserializeOwned>(_v: serde_json::Value) -> std::result::Result<T, serde_json::Error> {
    use serde::de::value::MapDeserializer;
    let items = [("crate", "util"), ("version", "1.2.3"), ("path", "util::Thing")];
    T::deserialize(MapDeserializer::<_, serde_json::Error>::new(items.into_iter()))
}

#[kani::proof]
#[kani::unwind(16)]
#[kani::stub(std::rt::thread_cleanup, noop_stub)]
#[kani::stub(crate::TypeSpace::id_for_schema, stub_id_for_schema)]
#[kani::stub(semver::VersionReq::parse, stub_req_parse)]
#[kani::stub(serde_json::from_value, stub_from_value)]
fn probe_rust_extension3() {
    use schemars::schema::*;
    let mut ts = empty_ts();
    let (a, b, c): (u64, u64, u64) = (kani::any(), kani::any(), kani::any());
    let which: u8 = kani::any();
    kani::assume(which < 4);
    let policy_sel: u8 = kani::any();
    kani::assume(policy_sel < 3);
    ts.settings.unknown_crates = match policy_sel { 0 => UnknownPolicy::Generate, 1 => UnknownPolicy::Allow, _ => UnknownPolicy::Deny };
    let vers = match which {
        0 => None,
        1 => Some(CrateVers::Any),
        2 => Some(CrateVers::Never),
        _ => Some(CrateVers::Version(semver::Version::new(a, b, c))),
    };
    if let Some(v) = vers {
        ts.settings.crates.insert("util".to_string(), CrateSpec { version: v, rename: None });
    }
    let mut so = SchemaObject::default();
    so.extensions.insert("x-rust-type".to_string(), serde_json::Value::Null);
    let got = ts.convert_rust_extension(&so).is_some();
    match which {
        0 => assert!(got == (policy_sel == 1)),
        1 => assert!(got),
        2 => assert!(!got),
        _ => {}
    }
    std::mem::forget(ts); std::mem::forget(so);
}

fn any_its_small() -> Option<schemars::schema::SingleOrVec<schemars::schema::InstanceType>> {
    use schemars::schema::SingleOrVec;
    if kani::any() { None } else { Some(SingleOrVec::Single(Box::new(any_it()))) }
}

#[kani::proof]
#[kani::unwind(8)]
fn probe_merge_it_small() {
    let a = any_its_small();
    let b = any_its_small();
    let m = crate::merge::merge_so_instance_type(a.as_ref(), b.as_ref());
    let t = any_it();
    let both = admits(&a, t) && admits(&b, t);
    let got = match &m { Err(()) => false, Ok(o) => admits(o, t) };
    assert!(got == both);
    std::mem::forget(m); std::mem::forget(a); std::mem::forget(b);
}

#[kani::proof]
fn probe_merge_it_min() {
    use schemars::schema::SingleOrVec;
    let ta = any_it();
    let tb = any_it();
    let a = SingleOrVec::Single(Box::new(ta));
    let b = SingleOrVec::Single(Box::new(tb));
    let m = crate::merge::merge_so_instance_type(Some(&a), Some(&b));
    assert!(m.is_ok() == (ta == tb));
    std::mem::forget(m);
}

fn ref_matches(op: &semver::Op, maj: u64, min: Option<u64>, pat: Option<u64>, v: (u64, u64, u64)) -> bool {
    use semver::Op::*;
    let (a, b, c) = v;
    let eq = a == maj && min.map_or(true, |m| b == m) && pat.map_or(true, |p| c == p);
    let gt = a > maj || (a == maj && match min { None => false, Some(m) => b > m || (b == m && match pat { None => false, Some(p) => c > p }) });
    let lt = a < maj || (a == maj && match min { None => false, Some(m) => b < m || (b == m && match pat { None => false, Some(p) => c < p }) });
    match op {
        Exact => eq,
        Greater => gt,
        GreaterEq => eq || gt,
        Less => lt,
        LessEq => eq || lt,
        Tilde => a == maj && min.map_or(true, |m| b == m) && pat.map_or(true, |p| c >= p),
        Caret => {
            if a != maj { return false; }
            let Some(m) = min else { return true; };
            let Some(p) = pat else { return if maj > 0 { b >= m } else { b == m }; };
            if maj > 0 { b > m || (b == m && c >= p) }
            else if m > 0 { b == m && c >= p }
            else { b == 0 && c == p }
        }
        _ => false,
    }
}

static mut STUB_REQ: Option<(u8, u64, Option<u64>, Option<u64>)> = None;
fn stub_req_parse2(_s: &str) -> std::result::Result<semver::VersionReq, semver::Error> {
    let (k, major, minor, patch) = unsafe { STUB_REQ.unwrap() };
    let op = match k { 0 => semver::Op::Exact, 1 => semver::Op::Greater, 2 => semver::Op::GreaterEq, 3 => semver::Op::Less, 4 => semver::Op::LessEq, 5 => semver::Op::Tilde, _ => semver::Op::Caret };
    Ok(semver::VersionReq { comparators: vec![semver::Comparator { op, major, minor, patch, pre: semver::Prerelease::EMPTY }] })
}

#[kani::proof]
#[kani::unwind(16)]
#[kani::stub(std::rt::thread_cleanup, noop_stub)]
#[kani::stub(crate::TypeSpace::id_for_schema, stub_id_for_schema)]
#[kani::stub(semver::VersionReq::parse, stub_req_parse2)]
#[kani::stub(serde_json::from_value, stub_from_value)]
#[kani::stub(alloc::fmt::format, stub_format)]
fn probe_rust_extension4() {
    use schemars::schema::*;
    let mut ts = empty_ts();
    let (a, b, c): (u64, u64, u64) = (kani::any(), kani::any(), kani::any());
    let k: u8 = kani::any();
    kani::assume(k < 7);
    let major: u64 = kani::any();
    let minor = any_opt_u64();
    let patch = if minor.is_some() { any_opt_u64() } else { None };
    unsafe { STUB_REQ = Some((k, major, minor, patch)); }
    ts.settings.crates.insert("util".to_string(), CrateSpec { version: CrateVers::Version(semver::Version::new(a, b, c)), rename: None });
    let mut so = SchemaObject::default();
    so.extensions.insert("x-rust-type".to_string(), serde_json::Value::Null);
    let got = ts.convert_rust_extension(&so).is_some();
    let op = match k { 0 => semver::Op::Exact, 1 => semver::Op::Greater, 2 => semver::Op::GreaterEq, 3 => semver::Op::Less, 4 => semver::Op::LessEq, 5 => semver::Op::Tilde, _ => semver::Op::Caret };
    assert!(got == ref_matches(&op, major, minor, patch, (a, b, c)));
    std::mem::forget(ts); std::mem::forget(so);
}

#[kani::proof]
#[kani::unwind(12)]
fn probe_c10_uint8_default() {
    let ts = empty_ts();
    let validation = Some(Box::new(NumberValidation {
        multiple_of: None,
        maximum: opt_f64(),
        exclusive_maximum: None,
        minimum: opt_f64(),
        exclusive_minimum: None,
    }));
    let v = validation.as_ref().unwrap();
    let (mn, mx) = (v.minimum, v.maximum);
    let d: i64 = kani::any();
    let metadata: Option<Box<Metadata>> = Some(Box::new(Metadata { default: Some(serde_json::Value::Number(d.into())), ..Default::default() }));
    let format: Option<String> = Some("uint8".to_string());
    let res = ts.convert_integer(&metadata, &validation, &format);
    if let Ok((te, _)) = &res {
        let TypeEntryDetails::Integer(name) = &te.details else { panic!() };
        let b = name.as_bytes();
        let is_u8 = b.len() == 2 && b[0] == b'u' && b[1] == b'8';
        if is_u8 { assert!(d >= 0 && d <= 255); }
        kani::cover!(is_u8);
    }
    let x = d as f64;
    let outside = mn.map_or(false, |m| x < m) || mx.map_or(false, |m| x > m) || d < 0 || d > 255;
    if outside { assert!(res.is_err()); }
    std::mem::forget(res); std::mem::forget(metadata);
}

#[kani::proof]
#[kani::unwind(8)]
fn probe_sv_fast() {
    use crate::util::StringValidator;
    // layout: one 2-byte scalar followed by one 1-byte scalar
    let x: u16 = kani::any();
    kani::assume(x >= 0x80 && x <= 0x7FF);
    let a: u8 = kani::any();
    kani::assume(a < 0x80);
    let buf = [0xC0 | (x >> 6) as u8, 0x80 | (x & 0x3F) as u8, a];
    let s = unsafe { std::str::from_utf8_unchecked(&buf) };
    let max: Option<u32> = kani::any();
    let min: Option<u32> = kani::any();
    let sv = schemars::schema::StringValidation { max_length: max, min_length: min, pattern: None };
    let v = match StringValidator::new(&Name::Unknown, Some(&sv)) { Ok(v) => v, Err(_) => panic!() };
    let expect = max.map_or(true, |m| 2 <= m) && min.map_or(true, |m| 2 >= m);
    assert!(v.is_valid(s) == expect);
    std::mem::forget(v);
}

fn stub_format(_args: std::fmt::Arguments<'_>) -> String { String::new() }
