#!/bin/bash
h=$1; shift
cd /tmp/probe/gen/crate
( ulimit -v 20000000; /usr/bin/time -v timeout 600 cargo kani --harness $h --target-dir /tmp/probe/gtarget_$h --output-format terse "$@" > /tmp/probe/glog_$h.txt 2>&1 )
echo "done $h" >> /tmp/probe/done.txt
