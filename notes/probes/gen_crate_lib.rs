#![allow(unused)]
pub mod gen;
#[cfg(kani)]
mod proofs {
    use super::gen::*;
    use serde::de::IntoDeserializer;
    use serde::Deserialize;

    fn any_str<const N: usize>(buf: &mut [u8; N]) -> &str {
        let len: usize = kani::any();
        kani::assume(len <= N);
        for i in 0..N { buf[i] = kani::any(); }
        match std::str::from_utf8(&buf[..len]) {
            Ok(s) => s,
            Err(_) => { kani::assume(false); unreachable!() }
        }
    }

    #[kani::proof]
    #[kani::unwind(12)]
    fn color_fromstr_vs_deser() {
        let mut buf = [0u8; 3];
        let s = any_str(&mut buf);
        let a: Result<Color, _> = s.parse();
        let d: serde::de::value::StrDeserializer<'_, serde::de::value::Error> = s.into_deserializer();
        let b = Color::deserialize(d);
        assert!(a.is_ok() == b.is_ok());
        if let (Ok(x), Ok(y)) = (&a, &b) { assert!(x == y); }
        std::mem::forget(a); std::mem::forget(b);
    }

    #[kani::proof]
    #[kani::unwind(8)]
    fn short_len_chars() {
        let c1: char = kani::any();
        let c2: char = kani::any();
        let n: u8 = kani::any();
        kani::assume(n <= 4);
        let mut s = String::new();
        for i in 0..n { s.push(if i % 2 == 0 { c1 } else { c2 }); }
        let r: Result<Short, _> = s.as_str().parse();
        assert!(r.is_ok() == (n >= 2 && n <= 3));
        std::mem::forget(r);
    }

    #[kani::proof]
    #[kani::unwind(8)]
    fn small_tryfrom() {
        let v: i64 = kani::any();
        let r = Small::try_from(v);
        assert!(r.is_ok() == (v == 1 || v == 2 || v == 3));
        std::mem::forget(r);
    }

    #[kani::proof]
    #[kani::unwind(8)]
    fn pt_builder() {
        let setx: bool = kani::any();
        let sety: bool = kani::any();
        let x: u8 = kani::any();
        let y: i64 = kani::any();
        let mut b = Pt::builder();
        if setx { b = b.x(x); }
        if sety { b = b.y(y); }
        let r: Result<Pt, _> = b.try_into();
        assert!(r.is_ok() == setx);
        if let Ok(p) = &r {
            assert!(p.x == x);
            assert!(p.y == if sety { y } else { 7 });
            assert!(p.name.is_none());
        }
        std::mem::forget(r);
    }

    #[derive(Debug)]
    struct E;
    impl std::fmt::Display for E { fn fmt(&self, _: &mut std::fmt::Formatter<'_>) -> std::fmt::Result { Ok(()) } }
    impl std::error::Error for E {}
    impl serde::de::Error for E { fn custom<T: std::fmt::Display>(_: T) -> Self { E } }

    #[kani::proof]
    #[kani::unwind(12)]
    fn color2() {
        let mut buf = [0u8; 3];
        let s = any_str(&mut buf);
        let a: Result<Color, _> = s.parse();
        let d: serde::de::value::StrDeserializer<'_, E> = s.into_deserializer();
        let b = Color::deserialize(d);
        assert!(a.is_ok() == b.is_ok());
        if let (Ok(x), Ok(y)) = (&a, &b) { assert!(x == y); }
        std::mem::forget(a); std::mem::forget(b);
    }

    #[kani::proof]
    #[kani::unwind(6)]
    fn short1() {
        let c: char = kani::any();
        let mut tmp = [0u8; 4];
        let w = c.encode_utf8(&mut tmp).len();
        let k: usize = kani::any();
        kani::assume(k <= 4);
        let mut buf = [0u8; 16];
        let mut i = 0;
        while i < k { let mut j = 0; while j < w { buf[i*w+j] = tmp[j]; j += 1; } i += 1; }
        let s = unsafe { std::str::from_utf8_unchecked(&buf[..k*w]) };
        let r: Result<Short, _> = s.parse();
        assert!(r.is_ok() == (k >= 2 && k <= 3));
        std::mem::forget(r);
    }

    #[kani::proof]
    #[kani::unwind(10)]
    fn pt_from_value() {
        let x: u64 = kani::any();
        let hasy: bool = kani::any();
        let y: i64 = kani::any();
        let mut m = serde_json::Map::new();
        m.insert("x".to_string(), serde_json::Value::from(x));
        if hasy { m.insert("y".to_string(), serde_json::Value::from(y)); }
        let r: Result<Pt, _> = serde_json::from_value(serde_json::Value::Object(m));
        assert!(r.is_ok() == (x <= 255));
        if let Ok(p) = &r {
            assert!(p.x as u64 == x);
            assert!(p.y == if hasy { y } else { 7 });
        }
        std::mem::forget(r);
    }

    #[kani::proof]
    #[kani::unwind(10)]
    fn pt_mapdeser() {
        use serde::de::value::{MapDeserializer, U64Deserializer};
        let x: u64 = kani::any();
        let y: u64 = kani::any();
        let items = [("x", x), ("y", y)];
        let d: MapDeserializer<'_, _, E> = MapDeserializer::new(items.into_iter());
        let r = Pt::deserialize(d);
        assert!(r.is_ok() == (x <= 255 && y <= i64::MAX as u64));
        if let Ok(p) = &r { assert!(p.x as u64 == x); assert!(p.y as u64 == y); }
        std::mem::forget(r);
    }

    fn two_byte(buf: &mut [u8], at: usize) {
        let x: u16 = kani::any();
        kani::assume(x >= 0x80 && x <= 0x7FF);
        buf[at] = 0xC0 | (x >> 6) as u8;
        buf[at + 1] = 0x80 | (x & 0x3F) as u8;
    }

    #[kani::proof]
    #[kani::unwind(8)]
    fn short2_k2w2() {
        let mut buf = [0u8; 4];
        two_byte(&mut buf, 0);
        two_byte(&mut buf, 2);
        let s = std::str::from_utf8(&buf).unwrap();
        let r: Result<Short, _> = s.parse();
        assert!(r.is_ok());          // 2 scalar values, min 2 max 3
        let d: serde::de::value::StrDeserializer<'_, E> = s.into_deserializer();
        let r2 = Short::deserialize(d);
        assert!(r2.is_ok());
        std::mem::forget(r); std::mem::forget(r2);
    }

    #[kani::proof]
    #[kani::unwind(8)]
    fn short2_k1w2() {
        let mut buf = [0u8; 2];
        two_byte(&mut buf, 0);
        let s = std::str::from_utf8(&buf).unwrap();
        let r: Result<Short, _> = s.parse();
        assert!(r.is_err());         // 1 scalar value (2 bytes): below minLength 2
        std::mem::forget(r);
    }

    #[kani::proof]
    #[kani::unwind(8)]
    fn t_count() {
        let mut buf = [0u8; 2];
        two_byte(&mut buf, 0);
        let s = std::str::from_utf8(&buf).unwrap();
        assert!(s.chars().count() == 1);
    }
    #[kani::proof]
    #[kani::unwind(8)]
    fn t_tostring() {
        let mut buf = [0u8; 2];
        two_byte(&mut buf, 0);
        let s = std::str::from_utf8(&buf).unwrap();
        let t = s.to_string();
        assert!(t.len() == 2);
        std::mem::forget(t);
    }
    #[kani::proof]
    #[kani::unwind(8)]
    fn t_unchecked_parse() {
        let mut buf = [0u8; 2];
        two_byte(&mut buf, 0);
        let s = unsafe { std::str::from_utf8_unchecked(&buf) };
        let r: Result<Short, _> = s.parse();
        assert!(r.is_err());
        std::mem::forget(r);
    }

    // ---- capture serializer (only what unit-variant enums / transparent string newtypes need)
    struct Cap { buf: [u8; 16], len: usize }
    impl std::fmt::Write for Cap {
        fn write_str(&mut self, s: &str) -> std::fmt::Result {
            let b = s.as_bytes();
            let mut i = 0;
            while i < b.len() { if self.len < 16 { self.buf[self.len] = b[i]; } self.len += 1; i += 1; }
            Ok(())
        }
    }
    struct CapSer<'a>(&'a mut Cap);
    impl<'a> serde::Serializer for CapSer<'a> {
        type Ok = (); type Error = E;
        type SerializeSeq = serde::ser::Impossible<(), E>;
        type SerializeTuple = serde::ser::Impossible<(), E>;
        type SerializeTupleStruct = serde::ser::Impossible<(), E>;
        type SerializeTupleVariant = serde::ser::Impossible<(), E>;
        type SerializeMap = serde::ser::Impossible<(), E>;
        type SerializeStruct = serde::ser::Impossible<(), E>;
        type SerializeStructVariant = serde::ser::Impossible<(), E>;
        fn serialize_str(self, v: &str) -> Result<(), E> { use std::fmt::Write; self.0.write_str(v).map_err(|_| E) }
        fn serialize_unit_variant(self, _n: &'static str, _i: u32, variant: &'static str) -> Result<(), E> { self.serialize_str(variant) }
        fn serialize_newtype_struct<T: ?Sized + serde::Serialize>(self, _n: &'static str, v: &T) -> Result<(), E> { v.serialize(self) }
        fn serialize_bool(self, _: bool) -> Result<(), E> { Err(E) }
        fn serialize_i8(self, _: i8) -> Result<(), E> { Err(E) }
        fn serialize_i16(self, _: i16) -> Result<(), E> { Err(E) }
        fn serialize_i32(self, _: i32) -> Result<(), E> { Err(E) }
        fn serialize_i64(self, _: i64) -> Result<(), E> { Err(E) }
        fn serialize_u8(self, _: u8) -> Result<(), E> { Err(E) }
        fn serialize_u16(self, _: u16) -> Result<(), E> { Err(E) }
        fn serialize_u32(self, _: u32) -> Result<(), E> { Err(E) }
        fn serialize_u64(self, _: u64) -> Result<(), E> { Err(E) }
        fn serialize_f32(self, _: f32) -> Result<(), E> { Err(E) }
        fn serialize_f64(self, _: f64) -> Result<(), E> { Err(E) }
        fn serialize_char(self, _: char) -> Result<(), E> { Err(E) }
        fn serialize_bytes(self, _: &[u8]) -> Result<(), E> { Err(E) }
        fn serialize_none(self) -> Result<(), E> { Err(E) }
        fn serialize_some<T: ?Sized + serde::Serialize>(self, _: &T) -> Result<(), E> { Err(E) }
        fn serialize_unit(self) -> Result<(), E> { Err(E) }
        fn serialize_unit_struct(self, _: &'static str) -> Result<(), E> { Err(E) }
        fn serialize_newtype_variant<T: ?Sized + serde::Serialize>(self, _: &'static str, _: u32, _: &'static str, _: &T) -> Result<(), E> { Err(E) }
        fn serialize_seq(self, _: Option<usize>) -> Result<Self::SerializeSeq, E> { Err(E) }
        fn serialize_tuple(self, _: usize) -> Result<Self::SerializeTuple, E> { Err(E) }
        fn serialize_tuple_struct(self, _: &'static str, _: usize) -> Result<Self::SerializeTupleStruct, E> { Err(E) }
        fn serialize_tuple_variant(self, _: &'static str, _: u32, _: &'static str, _: usize) -> Result<Self::SerializeTupleVariant, E> { Err(E) }
        fn serialize_map(self, _: Option<usize>) -> Result<Self::SerializeMap, E> { Err(E) }
        fn serialize_struct(self, _: &'static str, _: usize) -> Result<Self::SerializeStruct, E> { Err(E) }
        fn serialize_struct_variant(self, _: &'static str, _: u32, _: &'static str, _: usize) -> Result<Self::SerializeStructVariant, E> { Err(E) }
    }
    impl serde::ser::Error for E { fn custom<T: std::fmt::Display>(_: T) -> Self { E } }

    #[kani::proof]
    #[kani::unwind(20)]
    fn color_display_vs_ser() {
        use serde::Serialize; use std::fmt::Write;
        let k: u8 = kani::any();
        kani::assume(k < 4);
        let x = match k { 0 => Color::Red, 1 => Color::DarkGreen, 2 => Color::Blue, _ => Color::É };
        let mut a = Cap { buf: [0; 16], len: 0 };
        write!(a, "{}", x).unwrap();
        let mut b = Cap { buf: [0; 16], len: 0 };
        x.serialize(CapSer(&mut b)).unwrap();
        assert!(a.len == b.len);
        let mut i = 0;
        while i < 16 { assert!(a.buf[i] == b.buf[i]); i += 1; }
    }

    #[kani::proof]
    #[kani::unwind(6)]
    fn color3_ascii() {
        let mut buf = [0u8; 3];
        for i in 0..3 { buf[i] = kani::any(); kani::assume(buf[i] < 128); }
        let s = unsafe { std::str::from_utf8_unchecked(&buf) };
        let a: Result<Color, _> = s.parse();
        let d: serde::de::value::StrDeserializer<'_, E> = s.into_deserializer();
        let b = Color::deserialize(d);
        assert!(a.is_ok() == b.is_ok());
        assert!(a.is_ok() == (buf == *b"red"));
        std::mem::forget(a); std::mem::forget(b);
    }

    // ---------- presence mask over MapDeserializer
    #[kani::proof]
    #[kani::unwind(6)]
    fn pt_presence() {
        use serde::de::value::MapDeserializer;
        let x: u64 = kani::any();
        let y: u64 = kani::any();
        let hx: bool = kani::any();
        let hy: bool = kani::any();
        let items = [if hx { Some(("x", x)) } else { None }, if hy { Some(("y", y)) } else { None }];
        let d: MapDeserializer<'_, _, E> = MapDeserializer::new(items.into_iter().flatten());
        let r = Pt::deserialize(d);
        assert!(r.is_ok() == (hx && x <= 255 && (!hy || y <= i64::MAX as u64)));
        if let Ok(p) = &r {
            assert!(p.x as u64 == x);
            assert!(p.y == if hy { y as i64 } else { 7 });
            assert!(p.name.is_none());
        }
        std::mem::forget(r);
    }

    // ---------- struct capture serializer + round trip
    #[derive(Clone, Copy, PartialEq)]
    enum Leaf { Absent, U(u64), I(i64), B(bool), Unit, Str }
    struct LeafSer<'a>(&'a mut Leaf);
    macro_rules! no { ($($f:ident($t:ty)),*) => { $( fn $f(self, _: $t) -> Result<(), E> { Err(E) } )* } }
    impl<'a> serde::Serializer for LeafSer<'a> {
        type Ok = (); type Error = E;
        type SerializeSeq = serde::ser::Impossible<(), E>;
        type SerializeTuple = serde::ser::Impossible<(), E>;
        type SerializeTupleStruct = serde::ser::Impossible<(), E>;
        type SerializeTupleVariant = serde::ser::Impossible<(), E>;
        type SerializeMap = serde::ser::Impossible<(), E>;
        type SerializeStruct = serde::ser::Impossible<(), E>;
        type SerializeStructVariant = serde::ser::Impossible<(), E>;
        fn serialize_bool(self, v: bool) -> Result<(), E> { *self.0 = Leaf::B(v); Ok(()) }
        fn serialize_i8(self, v: i8) -> Result<(), E> { *self.0 = Leaf::I(v as i64); Ok(()) }
        fn serialize_i16(self, v: i16) -> Result<(), E> { *self.0 = Leaf::I(v as i64); Ok(()) }
        fn serialize_i32(self, v: i32) -> Result<(), E> { *self.0 = Leaf::I(v as i64); Ok(()) }
        fn serialize_i64(self, v: i64) -> Result<(), E> { *self.0 = Leaf::I(v); Ok(()) }
        fn serialize_u8(self, v: u8) -> Result<(), E> { *self.0 = Leaf::U(v as u64); Ok(()) }
        fn serialize_u16(self, v: u16) -> Result<(), E> { *self.0 = Leaf::U(v as u64); Ok(()) }
        fn serialize_u32(self, v: u32) -> Result<(), E> { *self.0 = Leaf::U(v as u64); Ok(()) }
        fn serialize_u64(self, v: u64) -> Result<(), E> { *self.0 = Leaf::U(v); Ok(()) }
        fn serialize_str(self, _v: &str) -> Result<(), E> { *self.0 = Leaf::Str; Ok(()) }
        fn serialize_none(self) -> Result<(), E> { *self.0 = Leaf::Unit; Ok(()) }
        fn serialize_unit(self) -> Result<(), E> { *self.0 = Leaf::Unit; Ok(()) }
        fn serialize_some<T: ?Sized + serde::Serialize>(self, v: &T) -> Result<(), E> { v.serialize(self) }
        fn serialize_newtype_struct<T: ?Sized + serde::Serialize>(self, _n: &'static str, v: &T) -> Result<(), E> { v.serialize(self) }
        no!(serialize_f32(f32), serialize_f64(f64), serialize_char(char), serialize_bytes(&[u8]), serialize_unit_struct(&'static str));
        fn serialize_unit_variant(self, _: &'static str, _: u32, _: &'static str) -> Result<(), E> { *self.0 = Leaf::Str; Ok(()) }
        fn serialize_newtype_variant<T: ?Sized + serde::Serialize>(self, _: &'static str, _: u32, _: &'static str, _: &T) -> Result<(), E> { Err(E) }
        fn serialize_seq(self, _: Option<usize>) -> Result<Self::SerializeSeq, E> { Err(E) }
        fn serialize_tuple(self, _: usize) -> Result<Self::SerializeTuple, E> { Err(E) }
        fn serialize_tuple_struct(self, _: &'static str, _: usize) -> Result<Self::SerializeTupleStruct, E> { Err(E) }
        fn serialize_tuple_variant(self, _: &'static str, _: u32, _: &'static str, _: usize) -> Result<Self::SerializeTupleVariant, E> { Err(E) }
        fn serialize_map(self, _: Option<usize>) -> Result<Self::SerializeMap, E> { Err(E) }
        fn serialize_struct(self, _: &'static str, _: usize) -> Result<Self::SerializeStruct, E> { Err(E) }
        fn serialize_struct_variant(self, _: &'static str, _: u32, _: &'static str, _: usize) -> Result<Self::SerializeStructVariant, E> { Err(E) }
    }
    struct StructCap { keys: [&'static str; 4], vals: [Leaf; 4], n: usize }
    struct StructSer<'a>(&'a mut StructCap);
    impl<'a> serde::ser::SerializeStruct for StructSer<'a> {
        type Ok = (); type Error = E;
        fn serialize_field<T: ?Sized + serde::Serialize>(&mut self, key: &'static str, value: &T) -> Result<(), E> {
            let i = self.0.n;
            if i >= 4 { return Err(E); }
            self.0.keys[i] = key;
            value.serialize(LeafSer(&mut self.0.vals[i]))?;
            self.0.n = i + 1;
            Ok(())
        }
        fn end(self) -> Result<(), E> { Ok(()) }
    }
    struct TopSer<'a>(&'a mut StructCap);
    impl<'a> serde::Serializer for TopSer<'a> {
        type Ok = (); type Error = E;
        type SerializeSeq = serde::ser::Impossible<(), E>;
        type SerializeTuple = serde::ser::Impossible<(), E>;
        type SerializeTupleStruct = serde::ser::Impossible<(), E>;
        type SerializeTupleVariant = serde::ser::Impossible<(), E>;
        type SerializeMap = serde::ser::Impossible<(), E>;
        type SerializeStruct = StructSer<'a>;
        type SerializeStructVariant = serde::ser::Impossible<(), E>;
        fn serialize_struct(self, _: &'static str, _: usize) -> Result<StructSer<'a>, E> { Ok(StructSer(self.0)) }
        no!(serialize_bool(bool), serialize_i8(i8), serialize_i16(i16), serialize_i32(i32), serialize_i64(i64), serialize_u8(u8), serialize_u16(u16), serialize_u32(u32), serialize_u64(u64), serialize_f32(f32), serialize_f64(f64), serialize_char(char), serialize_str(&str), serialize_bytes(&[u8]), serialize_unit_struct(&'static str));
        fn serialize_none(self) -> Result<(), E> { Err(E) }
        fn serialize_unit(self) -> Result<(), E> { Err(E) }
        fn serialize_some<T: ?Sized + serde::Serialize>(self, _: &T) -> Result<(), E> { Err(E) }
        fn serialize_newtype_struct<T: ?Sized + serde::Serialize>(self, _n: &'static str, _: &T) -> Result<(), E> { Err(E) }
        fn serialize_unit_variant(self, _: &'static str, _: u32, _: &'static str) -> Result<(), E> { Err(E) }
        fn serialize_newtype_variant<T: ?Sized + serde::Serialize>(self, _: &'static str, _: u32, _: &'static str, _: &T) -> Result<(), E> { Err(E) }
        fn serialize_seq(self, _: Option<usize>) -> Result<Self::SerializeSeq, E> { Err(E) }
        fn serialize_tuple(self, _: usize) -> Result<Self::SerializeTuple, E> { Err(E) }
        fn serialize_tuple_struct(self, _: &'static str, _: usize) -> Result<Self::SerializeTupleStruct, E> { Err(E) }
        fn serialize_tuple_variant(self, _: &'static str, _: u32, _: &'static str, _: usize) -> Result<Self::SerializeTupleVariant, E> { Err(E) }
        fn serialize_map(self, _: Option<usize>) -> Result<Self::SerializeMap, E> { Err(E) }
        fn serialize_struct_variant(self, _: &'static str, _: u32, _: &'static str, _: usize) -> Result<Self::SerializeStructVariant, E> { Err(E) }
    }

    #[kani::proof]
    #[kani::unwind(6)]
    fn pt_roundtrip() {
        use serde::de::value::MapDeserializer;
        use serde::Serialize;
        let x: u64 = kani::any();
        let y: u64 = kani::any();
        kani::assume(x <= 255 && y <= i64::MAX as u64);
        let items = [("x", x), ("y", y)];
        let d: MapDeserializer<'_, _, E> = MapDeserializer::new(items.into_iter());
        let p = Pt::deserialize(d).unwrap();
        let mut cap = StructCap { keys: [""; 4], vals: [Leaf::Absent; 4], n: 0 };
        p.serialize(TopSer(&mut cap)).unwrap();
        // name is None => skipped; x then y emitted under their JSON names
        assert!(cap.n == 2);
        assert!(cap.keys[0].len() == 1 && cap.keys[0].as_bytes()[0] == b'x');
        assert!(cap.keys[1].len() == 1 && cap.keys[1].as_bytes()[0] == b'y');
        assert!(cap.vals[0] == Leaf::U(x));
        assert!(cap.vals[1] == Leaf::I(y as i64));
        std::mem::forget(p);
    }

    #[kani::proof]
    #[kani::unwind(8)]
    fn pt_builder_conv() {
        let x: u64 = kani::any();
        let b = Pt::builder().x(x);
        let r: Result<Pt, _> = b.try_into();
        assert!(r.is_ok() == (x <= 255));
        std::mem::forget(r);
    }
    fn stub_format(_a: std::fmt::Arguments<'_>) -> String { String::new() }
    #[kani::proof]
    #[kani::unwind(8)]
    #[kani::stub(alloc::fmt::format, stub_format)]
    fn pt_builder_conv_stub() {
        let x: u64 = kani::any();
        let b = Pt::builder().x(x);
        let r: Result<Pt, _> = b.try_into();
        assert!(r.is_ok() == (x <= 255));
        std::mem::forget(r);
    }
}
