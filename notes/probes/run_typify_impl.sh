#!/bin/bash
# usage: run.sh harness [extra kani flags]
h=$1; shift
cd /tmp/probe/repo
( ulimit -v 20000000; /usr/bin/time -v timeout 1500 cargo kani -p typify-impl -Z stubbing --harness $h --target-dir /tmp/probe/target_$h --output-format terse "$@" > /tmp/probe/log_$h.txt 2>&1 )
echo "done $h" >> /tmp/probe/done.txt
