#!/usr/bin/env python3
"""E2 schema corpus: the cases, the JSON-schema -> `Sch` translation (our own,
independent of typify), and the generator of kani/e2/src/gen/ (generated types
from the real typify via genner + harness instantiations).

The schema dimension of every E2 claim is exactly this finite corpus.
"""
import itertools
import json
import os
import sys
sys.path.insert(0, os.path.dirname(os.path.abspath(__file__)))
import e2gen  # noqa: E402
import os
import re
import subprocess
import sys

VERIF = os.path.dirname(os.path.dirname(os.path.abspath(__file__)))
CACHE = os.path.join(VERIF, '.cache')
E2 = os.path.join(VERIF, 'kani', 'e2')
GEN = os.path.join(E2, 'src', 'gen')

INT_FORMATS = {
    'int8': (-2**7, 2**7 - 1), 'uint8': (0, 2**8 - 1), 'int16': (-2**15, 2**15 - 1), 'uint16': (0, 2**16 - 1),
    'int': (-2**31, 2**31 - 1), 'int32': (-2**31, 2**31 - 1), 'uint': (0, 2**32 - 1), 'uint32': (0, 2**32 - 1),
    'int64': (-2**63, 2**63 - 1), 'uint64': (0, 2**64 - 1),
}


class Unsupported(Exception):
    pass


def rstr(s):
    return json.dumps(s, ensure_ascii=False)


def dv(v):
    if v is None:
        return 'Dv::Null'
    if isinstance(v, bool):
        return f'Dv::Bool({str(v).lower()})'
    if isinstance(v, int):
        return f'Dv::I({v})' if v < 0 else f'Dv::U({v})'
    if isinstance(v, str):
        return f'Dv::Str({rstr(v)})'
    raise Unsupported(f'default {v!r}')


def to_sch(schema, defs):
    """Our reading of the schema fragment (draft-07; recognised integer formats
    are ranges). Raises Unsupported outside the fragment."""
    import math
    if schema is True:
        raise Unsupported('true schema')
    if '$ref' in schema:
        name = schema['$ref'].split('/')[-1]
        return to_sch(defs[name], defs)
    for k in ('oneOf', 'anyOf'):
        if k in schema:
            alts = schema[k]
            nulls = [a for a in alts if a.get('type') == 'null']
            rest = [a for a in alts if a.get('type') != 'null']
            if len(alts) == 2 and len(nulls) == 1:
                return f'Sch::Nullable(&{to_sch(rest[0], defs)})'
            raise Unsupported(k)
    t = schema.get('type')
    if isinstance(t, list):
        if len(t) == 2 and 'null' in t:
            other = [x for x in t if x != 'null'][0]
            s2 = dict(schema)
            s2['type'] = other
            s2.pop('default', None)
            return f'Sch::Nullable(&{to_sch(s2, defs)})'
        raise Unsupported('type list')
    if t == 'null':
        return 'Sch::Null'
    if t == 'boolean':
        return 'Sch::Bool'
    if t == 'integer':
        if 'enum' in schema:
            return 'Sch::IntEnum(&[%s])' % ', '.join(str(int(x)) for x in schema['enum'])
        if 'not' in schema:
            return 'Sch::NotIntEnum(&[%s])' % ', '.join(str(int(x)) for x in schema['not']['enum'])
        lo, hi = -2**127, 2**127 - 1
        if schema.get('format') in INT_FORMATS:
            lo, hi = INT_FORMATS[schema['format']]
        if 'minimum' in schema:
            lo = max(lo, math.ceil(schema['minimum']))
        if 'exclusiveMinimum' in schema:
            lo = max(lo, math.floor(schema['exclusiveMinimum']) + 1)
        if 'maximum' in schema:
            hi = min(hi, math.floor(schema['maximum']))
        if 'exclusiveMaximum' in schema:
            hi = min(hi, math.ceil(schema['exclusiveMaximum']) - 1)
        return f'Sch::Int {{ lo: {lo}, hi: {hi} }}'
    if t == 'string':
        if 'enum' in schema:
            return 'Sch::StrEnum(&[%s])' % ', '.join(rstr(x) for x in schema['enum'])
        if 'not' in schema:
            return 'Sch::NotStrEnum(&[%s])' % ', '.join(rstr(x) for x in schema['not']['enum'])
        if 'pattern' in schema or 'format' in schema:
            raise Unsupported('pattern/format')
        o = lambda k: f'Some({schema[k]})' if k in schema else 'None'
        return f'Sch::Str {{ min: {o("minLength")}, max: {o("maxLength")} }}'
    if t == 'array':
        items = schema.get('items')
        if isinstance(items, list):
            if schema.get('minItems') != len(items) or schema.get('maxItems') != len(items):
                raise Unsupported('open tuple')
            return 'Sch::Tuple(&[%s])' % ', '.join(to_sch(i, defs) for i in items)
        if isinstance(items, dict) and not any(k in schema for k in ('minItems', 'maxItems', 'uniqueItems')):
            return f'Sch::Array(&{to_sch(items, defs)})'
        raise Unsupported('array form')
    if t == 'object':
        props = schema.get('properties', {})
        req = set(schema.get('required', []))
        ap = schema.get('additionalProperties', True)
        if ap not in (True, False):
            raise Unsupported('additionalProperties schema')
        ps = []
        for name in sorted(props):
            p = props[name]
            d = f'Some({dv(p["default"])})' if isinstance(p, dict) and 'default' in p else 'None'
            ps.append(f'Prop {{ name: {rstr(name)}, sch: {to_sch(p, defs)}, required: {str(name in req).lower()}, default: {d} }}')
        return 'Sch::Obj { props: &[%s], closed: %s }' % (', '.join(ps), str(ap is False).lower())
    raise Unsupported(f'type {t!r}')


def count(schema, defs, what):
    """Number of leaves / objects / tuples / string enums in build order (for mutations)."""
    s = to_sch(schema, defs)
    if what == 'obj':
        return s.count('Sch::Obj')
    if what == 'tuple':
        return s.count('Sch::Tuple')
    if what == 'strenum':
        return s.count('Sch::StrEnum')
    return None


# ------------------------------------------------------------------ the corpus

def width_seqs(k):
    return list(itertools.product([1, 2, 3, 4], repeat=k))


def wname(w):
    return ''.join(map(str, w)) or 'e'


CASES = []


def case(id, definitions, root, kind, settings=None, **kw):
    CASES.append(dict(id=id, definitions=definitions, root=root, kind=kind, settings=settings or {}, **kw))


COLORS = ['red', 'dark-green', 'Blue', 'é']
case('colors', {'Color': {'type': 'string', 'enum': COLORS}}, 'Color', 'str_enum', members=COLORS)
case('odd', {'Odd': {'type': 'string', 'enum': ['a b', 'type', '1st', 'ab', 'aB']}}, 'Odd', 'str_enum', members=['a b', 'type', '1st', 'ab', 'aB'])
case('one', {'One': {'type': 'string', 'enum': ['only']}}, 'One', 'str_enum', members=['only'])
for (mn, mx) in [(2, 3), (0, 1), (1, 1), (None, 2), (1, None), (3, 3)]:
    sc = {'type': 'string'}
    if mn is not None:
        sc['minLength'] = mn
    if mx is not None:
        sc['maxLength'] = mx
    case(f'len_{mn}_{mx}'.replace('None', 'n'), {'S': sc}, 'S', 'str_constrained', min=mn, max=mx)
case('alias', {'Alias': {'type': 'string'}}, 'Alias', 'str_plain')
case('notab', {'NotAb': {'type': 'string', 'not': {'enum': ['a', 'bc', 'é']}}}, 'NotAb', 'str_deny', denied=['a', 'bc', 'é'])
case('small', {'Small': {'type': 'integer', 'enum': [1, 2, 3]}}, 'Small', 'int_enum', values=[1, 2, 3])
case('wide', {'Wide': {'type': 'integer', 'enum': [-9223372036854775808, 0, 9223372036854775807]}}, 'Wide', 'int_enum',
     values=[-9223372036854775808, 0, 9223372036854775807])
case('notint', {'NotInt': {'type': 'integer', 'not': {'enum': [1, 2]}}}, 'NotInt', 'int_deny', values=[1, 2])

PT = {'type': 'object', 'required': ['x'],
      'properties': {'x': {'type': 'integer', 'format': 'uint8'}, 'y': {'type': 'integer', 'default': 7},
                     'foo-bar': {'type': 'string'}, 'type': {'type': ['boolean', 'null']}}}
case('pt', {'Pt': PT}, 'Pt', 'struct')
case('pt_closed', {'Pt': dict(PT, additionalProperties=False)}, 'Pt', 'struct')
case('pt_b', {'Pt': PT}, 'Pt', 'struct', settings={'builder': True})
case('ints', {'Ints': {'type': 'object', 'required': ['a', 'b', 'c', 'd'],
                       'properties': {'a': {'type': 'integer', 'format': 'int8'}, 'b': {'type': 'integer', 'format': 'uint16'},
                                      'c': {'type': 'integer', 'format': 'int64'}, 'd': {'type': 'integer', 'format': 'uint64'}}}}, 'Ints', 'struct')
case('bounds', {'Bounds': {'type': 'object', 'required': ['lo', 'hi', 'both', 'nz'],
                           'properties': {'lo': {'type': 'integer', 'minimum': 0}, 'hi': {'type': 'integer', 'maximum': 255},
                                          'both': {'type': 'integer', 'minimum': 0, 'maximum': 255},
                                          'nz': {'type': 'integer', 'minimum': 1, 'format': 'uint32'}}}}, 'Bounds', 'struct')
case('ports', {'Listener': {'type': 'object', 'required': ['port'],
                           'properties': {'port': {'type': 'integer', 'minimum': 1, 'maximum': 65535},
                                          'backlog': {'type': 'integer', 'exclusiveMinimum': 0, 'maximum': 4096},
                                          'workers': {'type': ['integer', 'null'], 'minimum': 1, 'maximum': 1024},
                                          'level': {'type': 'integer', 'minimum': -128, 'maximum': 127},
                                          'big': {'type': 'integer', 'minimum': 0, 'maximum': 4294967295}}}}, 'Listener', 'struct')
case('withenum', {'Color': {'type': 'string', 'enum': COLORS},
                  'W': {'type': 'object', 'required': ['c'],
                        'properties': {'c': {'$ref': '#/definitions/Color'}, 'd': {'$ref': '#/definitions/Color'},
                                       'n': {'type': 'string', 'minLength': 1, 'maxLength': 2}}}}, 'W', 'struct')
case('defaults', {'D': {'type': 'object',
                        'properties': {'b': {'type': 'boolean', 'default': True}, 'i': {'type': 'integer', 'default': -3},
                                       'u': {'type': 'integer', 'format': 'uint8', 'default': 200}, 's': {'type': 'string', 'default': 'hi'},
                                       'z': {'type': 'integer', 'default': 0}}}}, 'D', 'struct')
case('defaults_b', {'D': {'type': 'object',
                          'properties': {'b': {'type': 'boolean', 'default': True}, 'i': {'type': 'integer', 'default': -3},
                                         'u': {'type': 'integer', 'format': 'uint8', 'default': 200}, 's': {'type': 'string', 'default': 'hi'},
                                         'r': {'type': 'boolean'}},
                          'required': ['r']}}, 'D', 'struct', settings={'builder': True})
case('nested', {'Inner': {'type': 'object', 'required': ['k'], 'properties': {'k': {'type': 'integer', 'format': 'uint8'}, 'o': {'type': 'boolean'}}},
                'Outer': {'type': 'object', 'required': ['inner'],
                          'properties': {'inner': {'$ref': '#/definitions/Inner'}, 'opt': {'$ref': '#/definitions/Inner'}, 'flag': {'type': 'boolean'}}}},
     'Outer', 'struct')
case('pair', {'Pair': {'type': 'array', 'items': [{'type': 'integer'}, {'type': 'boolean'}], 'minItems': 2, 'maxItems': 2}}, 'Pair', 'tuple')
case('triple', {'Triple': {'type': 'array', 'items': [{'type': 'integer', 'format': 'uint8'}, {'type': 'string'}, {'type': ['boolean', 'null']}],
                           'minItems': 3, 'maxItems': 3}}, 'Triple', 'tuple')
case('withtuple', {'T': {'type': 'object', 'required': ['p'],
                         'properties': {'p': {'type': 'array', 'items': [{'type': 'integer'}, {'type': 'boolean'}], 'minItems': 2, 'maxItems': 2},
                                        'q': {'type': 'boolean'}}}}, 'T', 'struct')
case('arr', {'A': {'type': 'object', 'required': ['v'], 'properties': {'v': {'type': 'array', 'items': {'type': 'integer', 'format': 'uint8'}}}}}, 'A', 'struct')
case('nullable_obj', {'N': {'type': 'object', 'required': ['a'],
                            'properties': {'a': {'type': ['integer', 'null']}, 'b': {'oneOf': [{'$ref': '#/definitions/I'}, {'type': 'null'}]}}},
                      'I': {'type': 'object', 'required': ['k'], 'properties': {'k': {'type': 'boolean'}}}}, 'N', 'struct')

# property-name shapes x property states x leaf types (names that need a serde
# rename; intrinsic vs non-intrinsic defaults; nullable with and without default)
RENAMED = {'type': 'object', 'required': ['user-id'],
           'properties': {'user-id': {'type': 'string'}, 'isActive': {'type': 'boolean', 'default': False},
                          'retry-count': {'type': 'integer', 'default': 0}, 'display-name': {'type': 'string', 'default': ''},
                          'maxSize': {'type': 'integer', 'format': 'uint8'}, 'min-level': {'type': 'integer', 'default': 3}}}
case('renamed', {'Account': RENAMED}, 'Account', 'struct')
case('renamed_closed', {'Account': dict(RENAMED, additionalProperties=False)}, 'Account', 'struct')
case('renamed_b', {'Account': RENAMED}, 'Account', 'struct', settings={'builder': True})
NULLDEF = {'type': 'object', 'required': ['name'],
           'properties': {'name': {'type': 'string'}, 'retries': {'type': ['integer', 'null'], 'default': 0},
                          'verbose': {'type': ['boolean', 'null'], 'default': False}, 'prefix': {'type': ['string', 'null'], 'default': ''},
                          'backoff': {'type': ['integer', 'null'], 'default': 7}}}
case('nulldef', {'RetryPolicy': NULLDEF}, 'RetryPolicy', 'struct')
case('nulldef_b', {'RetryPolicy': NULLDEF}, 'RetryPolicy', 'struct', settings={'builder': True})
for tname, tsch, d0, d1 in [('bool', {'type': 'boolean'}, False, True), ('int', {'type': 'integer', 'format': 'int16'}, 0, -5), ('str', {'type': 'string'}, '', 'x y')]:
    props = {'a-req': dict(tsch), 'bOpt': dict(tsch), 'c-def0': dict(tsch, default=d0), 'dDef': dict(tsch, default=d1),
             'e-null': dict(tsch, type=[tsch['type'], 'null']), 'fNullDef': dict(tsch, type=[tsch['type'], 'null'], default=d1)}
    if tname == 'str':
        # six string members in one struct did not return within the cap: two structs
        halves = [('grid_str', ['a-req', 'bOpt', 'c-def0']), ('grid_str2', ['a-req', 'dDef', 'e-null', 'fNullDef'])]
    else:
        halves = [(f'grid_{tname}', list(props))]
    for gname, names in halves:
        g = {'type': 'object', 'required': ['a-req'], 'properties': {k: props[k] for k in names}}
        case(gname, {'G': g}, 'G', 'struct')
        case(gname + '_b', {'G': g}, 'G', 'struct', settings={'builder': True})

# optional / nullable compound members (tuples, arrays) without defaults. One struct with all of
# them did not return in the round-trip harness (timeout / out of memory): split.
TUP2 = {'type': 'array', 'items': [{'type': 'integer'}, {'type': 'string'}], 'minItems': 2, 'maxItems': 2}
case('opttuple', {'Record': {'type': 'object', 'required': ['id'],
                             'properties': {'id': {'type': 'integer', 'format': 'uint8'}, 'span': TUP2}}}, 'Record', 'struct')
case('optpair', {'Record': {'type': 'object', 'required': ['id'],
                            'properties': {'id': {'type': 'integer', 'format': 'uint8'},
                                           'pair': {'oneOf': [{'type': 'array', 'items': [{'type': 'boolean'}, {'type': 'integer', 'minimum': 10, 'maximum': 20}], 'minItems': 2, 'maxItems': 2},
                                                              {'type': 'null'}]}}}}, 'Record', 'struct')
case('optarr', {'Record': {'type': 'object', 'required': ['id'],
                           'properties': {'id': {'type': 'integer', 'format': 'uint8'},
                                          'tags': {'type': ['array', 'null'], 'items': {'type': 'string'}},
                                          'list': {'type': 'array', 'items': {'type': 'integer', 'format': 'uint8'}}}}}, 'Record', 'struct', no_rt=True)
WIDGET = {'title': 'Widget', 'type': 'object', 'required': ['id', 'display-name', 'type'],
          'properties': {'id': {'type': 'integer', 'format': 'uint32'}, 'display-name': {'type': 'string'},
                         'type': {'type': ['string', 'null']}, 'enabled': {'type': 'boolean', 'default': True},
                         'retryCount': {'type': 'integer', 'format': 'uint8', 'default': 3}},
          'default': {'id': 7, 'display-name': 'anon', 'type': 'gadget'}}
# ingested directly with add_type (a definitions entry would lose its object-level default)
case('objdefault', {'Widget': WIDGET}, 'Widget', 'struct', ingest='add_type')
case('objdefault_b', {'Widget': WIDGET}, 'Widget', 'struct', settings={'builder': True}, ingest='add_type')

# an externally tagged enum (the shape schemars emits): unit variants, a closed and an open
# struct variant, a newtype variant with a name that needs a rename
EVENTS = {'oneOf': [
    {'type': 'string', 'enum': ['noop', 'shut-down']},
    {'type': 'object', 'required': ['created'], 'additionalProperties': False,
     'properties': {'created': {'type': 'object', 'required': ['id'], 'additionalProperties': False,
                                'properties': {'id': {'type': 'integer', 'format': 'uint8'}, 'flag': {'type': 'boolean'}}}}},
    {'type': 'object', 'required': ['deleted'], 'additionalProperties': False,
     'properties': {'deleted': {'type': 'object', 'required': ['id'],
                                'properties': {'id': {'type': 'integer', 'format': 'uint8'}, 'why': {'type': 'string'}}}}},
    {'type': 'object', 'required': ['renamed-to'], 'additionalProperties': False,
     'properties': {'renamed-to': {'type': 'string'}}}]}
case('events', {'Event': EVENTS}, 'Event', 'extenum')
# the same with only closed struct variants
EVENTS_CLOSED = {'oneOf': [EVENTS['oneOf'][0], EVENTS['oneOf'][1],
                           {'type': 'object', 'required': ['moved'], 'additionalProperties': False,
                            'properties': {'moved': {'type': 'object', 'required': ['to'], 'additionalProperties': False,
                                                     'properties': {'to': {'type': 'integer', 'format': 'int16'}}}}}]}
case('events_closed', {'Event': EVENTS_CLOSED}, 'Event', 'extenum')

# C14: the same schema under other settings must behave the same on the wire
C14_VARIANTS = {
    'builder': {'builder': True},
    'derive': {'derives': ['PartialEq']},
    'btree': {'map_type': '::std::collections::BTreeMap'},
}


def main(tier='quick'):
    os.makedirs(GEN, exist_ok=True)
    os.makedirs(CACHE, exist_ok=True)
    gin = []
    for c in CASES:
        gin.append({'id': c['id'], 'definitions': c['definitions'], 'root': c['root'], 'settings': c['settings'], 'ingest': c.get('ingest', 'ref')})
        if c['kind'] in ('struct', 'tuple') and not c['settings'] and not c.get('ingest') and not c.get('no_rt'):
            for vn, vs in C14_VARIANTS.items():
                gin.append({'id': f"{c['id']}__{vn}", 'definitions': c['definitions'], 'root': c['root'], 'settings': vs})
            # a patch that renames and a replacement that removes *another* definition
            gin.append({'id': f"{c['id']}__patch", 'definitions': dict(c['definitions'], Unrelated={'type': 'object', 'properties': {'q': {'type': 'boolean'}}}),
                        'root': c['root'], 'settings': {'patch': {'Unrelated': {'rename': 'Renamed', 'derives': ['PartialEq']}}}})
    inp = os.path.join(CACHE, 'gen-input.json')
    json.dump(gin, open(inp, 'w'), indent=1)
    for f in os.listdir(GEN):
        os.remove(os.path.join(GEN, f))
    # build + run genner with the repository's own toolchain
    env = dict(os.environ, RUSTUP_TOOLCHAIN='1.80.1', CARGO_NET_OFFLINE='true')
    r = subprocess.run(['cargo', 'build', '--release', '--target-dir', os.path.join(CACHE, 'target-genner')],
                       cwd=os.path.join(VERIF, 'genner'), env=env, capture_output=True, text=True)
    if r.returncode != 0:
        return 'genner does not build against /repo: ' + r.stderr[-3000:]
    r = subprocess.run([os.path.join(CACHE, 'target-genner', 'release', 'genner'), inp, GEN], capture_output=True, text=True)
    if r.returncode != 0:
        return 'genner failed: ' + r.stderr[-3000:]
    index = json.load(open(os.path.join(GEN, 'index.json')))
    emit(index)
    return None


def rs_widths(w):
    return '&[' + ', '.join(map(str, w)) + ']'


def emit(index):
    mods = []
    extra_code = {}
    harness = []   # (name, unwind, expr, props, descr, tier)
    skipped = {}

    def h(name, expr, props, descr, tier='quick', unwind=26):
        harness.append((name, unwind, expr, props, descr, tier))

    for c in CASES:
        cid = c['id']
        meta = index.get(cid, {})
        if not meta.get('ok'):
            skipped[cid] = meta.get('error', 'missing')
            continue
        T = f"{cid}::{meta['root_type']}"
        mods.append(cid)
        kind = c['kind']
        defs = c['definitions']
        root_schema = defs[c['root']]
        if kind == 'str_enum':
            mem = '&[' + ', '.join(rstr(m) for m in c['members']) + ']'
            for k in range(0, 4):
                for w in width_seqs(k):
                    tier = 'quick' if (k <= 1 or w in [(2, 1), (1, 1), (3, 4), (1, 1, 1), (2, 2, 2), (4, 4, 4)]) else 'thorough'
                    h(f'e2_se_{cid}_{wname(w)}', f'|s| bodies::str_enum_free::<{T}, _>(s, {mem}, {rs_widths(w)})', ['C11', 'C05'],
                      f'string enum {c["members"]}: every string with UTF-8 widths {wname(w)} (all code points): FromStr/TryFrom x3/Deserialize agree with membership; Display == serialization', tier)
            for i, m in enumerate(c['members']):
                ops = [('x', 'Near::Exact', 'exactly')]
                at = 0
                for ch in m:
                    w = len(ch.encode())
                    ops.append((f's{at}', f'Near::Subst {{ at: {at}, w: {w} }}', f'with the scalar at byte {at} replaced by any scalar of {w} byte(s)'))
                    at += w
                ops += [('a1', 'Near::Append { w: 1 }', 'with any 1-byte scalar appended'), ('a2', 'Near::Append { w: 2 }', 'with any 2-byte scalar appended'),
                        ('t', 'Near::Truncate', 'with the last scalar dropped')]
                for on, oe, od in ops:
                    quick = on in ('x', 't', 'a1') or (on.startswith('s') and (int(on[1:]) % 3 == 0))
                    h(f'e2_sn_{cid}_{i}_{on}', f'|s| bodies::str_enum_near::<{T}, _>(s, {mem}, {i}, {oe})', ['C11', 'C05'],
                      f'string enum member {m!r} {od}: conversions agree with membership; Display == serialization', 'quick' if quick else 'thorough', unwind=26)
        elif kind == 'str_constrained':
            mn, mx = c['min'], c['max']
            top = (mx if mx is not None else (mn or 0) + 1) + 1
            ks = sorted({k for k in [0, (mn or 0) - 1, mn or 0, mx if mx is not None else top, top] if 0 <= k <= 4})
            # 4 scalars only through a few patterns (256 patterns per case would dominate the thorough tier)
            four = [(1, 1, 1, 1), (2, 2, 2, 2), (1, 2, 3, 4), (4, 4, 4, 4), (2, 1, 1, 1), (1, 1, 1, 3)]
            o = lambda v: f'Some({v})' if v is not None else 'None'
            for k in ks:
                for w in (width_seqs(k) if k < 4 else four):
                    quick = k == 0 or len(set(w)) == 1 or w in [(2, 1), (1, 2), (3, 4), (1, 2, 3), (2, 2, 1), (4, 1, 1)] + [tuple([2] * (k - 1) + [1])]
                    h(f'e2_sc_{cid}_{wname(w)}', f'|s| bodies::str_constrained::<{T}, _>(s, {o(mn)}, {o(mx)}, {rs_widths(w)})', ['C05', 'C11'],
                      f'string newtype minLength={mn} maxLength={mx}: every string of {k} scalar values with UTF-8 widths {wname(w)}: accepted iff {mn} <= {k} <= {mx}; all conversions agree',
                      'quick' if quick else 'thorough')
        elif kind == 'str_plain':
            for w in [(), (1,), (2,), (3,), (4,), (1, 1), (2, 1), (4, 4)]:
                h(f'e2_sp_{cid}_{wname(w)}', f'|s| bodies::str_plain::<{T}, _>(s, {rs_widths(w)})', ['C11'],
                  f'unconstrained string newtype: every string with widths {wname(w)}: parse/deserialize succeed, Display == serialization')
        elif kind == 'str_deny':
            den = '&[' + ', '.join(rstr(m) for m in c['denied']) + ']'
            for w in [(), (1,), (2,), (3,), (1, 1), (2, 1), (1, 1, 1)]:
                h(f'e2_sd_{cid}_{wname(w)}', f'|s| bodies::str_deny::<{T}, _>(s, {den}, bodies::TextKind::Free({rs_widths(w)}))', ['C05'],
                  f'string deny list {c["denied"]}: every string with widths {wname(w)}: accepted iff not denied (TryFrom<String>, Deserialize)')
            for i, m in enumerate(c['denied']):
                h(f'e2_sd_{cid}_m{i}', f'|s| bodies::str_deny::<{T}, _>(s, {den}, bodies::TextKind::Member({i}))', ['C05'], f'denied string {m!r} is rejected')
        elif kind in ('int_enum', 'int_deny'):
            vals = '&[' + ', '.join(str(v) for v in c['values']) + ']'
            if kind == 'int_enum':
                h(f'e2_in_{cid}', f'|s| bodies::int_newtype::<{T}, _>(s, {vals}, true)', ['C05', 'C03'],
                  f'integer enum {c["values"]}: every i64: TryFrom<i64>/Deserialize accept iff member; serializes to the same integer; booleans rejected')
            else:
                h(f'e2_id_{cid}', f'|s| bodies::int_deny::<{T}, _>(s, {vals}, false)', ['C05', 'C03'],
                  f'integer deny list {c["values"]}: every integer with |n| <= 2^53: Deserialize accepts iff not denied; serializes to the same integer; booleans rejected')
                h(f'e2_id_{cid}_big', f'|s| bodies::int_deny::<{T}, _>(s, {vals}, true)', ['C05', 'C03'],
                  f'integer deny list {c["values"]}: every i64 with |n| > 2^53: same assertions (known finding: the newtype is backed by f64)')
        elif kind == 'extenum':
            try:
                root = e2gen.tree(root_schema, defs)
                assert root['k'] == 'extenum'
            except (e2gen.Unsupported, AssertionError) as e:
                skipped[cid] = f'not an externally tagged enum in our reading: {e}'
                continue
            P = e2gen.Plan
            nv = len(root['units']) + len(root['variants'])
            gen_fns = []
            for v in range(nv):
                vname = (root['units'] + [x[0] for x in root['variants']])[v]
                plist = [P(name=f'v{v}', variant=v, descr=f'variant {vname!r}, all members of its content present, strings of one 1-byte scalar')]
                if v >= len(root['units']):
                    cn = e2gen.variant_counts(root, v - len(root['units']))
                    plist.append(P(name=f'v{v}p2', variant=v, widths=(2, 1), descr=f'variant {vname!r}, strings of a 2-byte and a 1-byte scalar'))
                    for k in range(cn['member']):
                        plist.append(P(name=f'v{v}m{k}', variant=v, present=set(range(cn['member'])) - {k}, descr=f'variant {vname!r}, member #{k} of its content absent'))
                    for k in range(cn['obj']):
                        plist.append(P(name=f'v{v}x{k}', variant=v, mutation=('extra', k), descr=f'variant {vname!r}, object #{k} of its content gets an undeclared member: rejected iff that object is closed'))
                    for tl in (1, 2):
                        plist.append(P(name=f'v{v}t{tl}', variant=v, mutation=('badtag', tl), descr=f'variant {vname!r} under an undeclared tag of {tl} letter(s): rejected'))
                    for k in range(cn['leaf']):
                        plist.append(P(name=f'v{v}w{k}', variant=v, mutation=('wrong', k, ['Null', 'Bool', 'Int', 'Str'][k % 4]), descr=f'variant {vname!r}, leaf #{k} replaced by a JSON value of another type'))
                for pl in plist:
                    fn, em = e2gen.fn_instance(f'inst_{cid}_{pl.name}', T, root, pl)
                    gen_fns.append(fn)
                    h(f'e2_inst_{cid}_{pl.name}', f'|s| gen::inst_{cid}_{pl.name}(s)', ['C02', 'C05'],
                      f'{cid} (externally tagged enum): {pl.descr}: valid => accepted; represented-constraint violation (incl. the tag) => rejected')
                    if pl.mutation is None:
                        fn, em = e2gen.fn_roundtrip(f'rt_{cid}_{pl.name}', T, root, pl)
                        gen_fns.append(fn)
                        h(f'e2_rt_{cid}_{pl.name}', f'|s| gen::rt_{cid}_{pl.name}(s)', ['C03'],
                          f'{cid} (externally tagged enum): {pl.descr}: round trip keeps the tag and every declared member, idempotent')
            extra_code[cid] = '\n\n'.join(gen_fns)
        elif kind in ('struct', 'tuple'):
            try:
                root = e2gen.tree(root_schema, defs)
            except e2gen.Unsupported as e:
                skipped[cid] = f'outside the fragment of the structural emitter: {e}'
                continue
            cn = e2gen.counts(root)
            nm = cn['member']
            P = e2gen.Plan
            plans = [P(name='p', descr='all members present, strings of one 1-byte scalar, arrays of 1'),
                     P(name='p2', widths=(2, 1), array_len=2, compound_null=True, pick=1, descr='all members present, strings of a 2-byte and a 1-byte scalar, arrays of 2, compound nullables null'),
                     P(name='n0', widths=(), array_len=0, present=set(), descr='no member present, empty strings and arrays')]
            dry = e2gen.build_prelude(root, P())
            req = {i for i, m in enumerate(dry.members) if m['prop']['required']}
            plans.insert(2, P(name='p0', widths=(), array_len=0, present=req, pick=3, descr='only the required members present (the minimal valid shape), empty strings and arrays'))
            plans.append(P(name='pe', widths=(), array_len=0, pick=1, descr='all members present, empty strings and empty arrays'))
            for k in range(nm):
                plans.append(P(name=f'm{k}', present=set(range(nm)) - {k}, descr=f'member #{k} (build order) absent, the others present'))
                plans.append(P(name=f'o{k}', present={k}, widths=(3,), pick=2 + k, descr=f'only member #{k} present; strings of one 3-byte scalar'))
            gen_fns = []
            for pl in plans:
                fn, em = e2gen.fn_instance(f'inst_{cid}_{pl.name}', T, root, pl)
                gen_fns.append(fn)
                tier = 'quick' if pl.name in ('p', 'p2', 'p0', 'n0', 'pe') or pl.name.startswith('m') else 'thorough'
                h(f'e2_inst_{cid}_{pl.name}', f'|s| gen::inst_{cid}_{pl.name}(s)', ['C02', 'C05'],
                  f'{cid}: schema-shaped instance ({pl.descr}), every leaf symbolic: valid => accepted; represented-constraint violation => rejected', tier)
                if not c['settings'] and not c.get('no_rt'):
                    fn, em = e2gen.fn_roundtrip(f'rt_{cid}_{pl.name}', T, root, pl)
                    gen_fns.append(fn)
                    h(f'e2_rt_{cid}_{pl.name}', f'|s| gen::rt_{cid}_{pl.name}(s)', ['C03', 'C06'],
                      f'{cid}: valid instance ({pl.descr}) -> deserialize -> serialize: declared members kept with equal values, absent defaulted members filled with the schema default, nothing else added, idempotent', tier)
            muts = []
            for k in range(cn['obj']):
                muts.append((f'x{k}', ('extra', k), f'object #{k} gets an undeclared member with a symbolic 1-2 letter name: rejected iff the object is closed', 'quick'))
            for k in range(cn['tuple']):
                muts.append((f'a{k}p', ('arity', k, 1), f'tuple #{k} with one element more: rejected', 'quick'))
                muts.append((f'a{k}m', ('arity', k, -1), f'tuple #{k} with one element less: rejected', 'quick'))
            # (a free string in place of a string-enum member inside a struct did not return in 15 min; the enum-alone harnesses `se`/`sn` cover it)
            wrongs = ['Null', 'Bool', 'Int', 'Str']
            for k in range(cn['leaf']):
                for wi, wv in enumerate(wrongs):
                    muts.append((f'w{k}{wv.lower()}', ('wrong', k, wv), f'leaf #{k} replaced by a JSON {wv.lower()}: rejected unless that type is admitted there',
                                 'quick' if (k + wi) % 4 == 0 else 'thorough'))
            for mn, mut, md, tier in muts:
                pl = P(name=mn, mutation=mut, widths=(1, 1) if mut[0] == 'freeenum' else (1,))
                fn, em = e2gen.fn_instance(f'inst_{cid}_{mn}', T, root, pl)
                gen_fns.append(fn)
                h(f'e2_inst_{cid}_{mn}', f'|s| gen::inst_{cid}_{mn}(s)', ['C05', 'C02'], f'{cid}: {md}', tier)
            if not c['settings'] and not c.get('ingest') and not c.get('no_rt'):
                for vn in list(C14_VARIANTS) + ['patch']:
                    vid = f'{cid}__{vn}'
                    vm = index.get(vid, {})
                    if not vm.get('ok'):
                        skipped[vid] = vm.get('error', 'missing')
                        continue
                    mods.append(vid)
                    for pl in plans[:4]:
                        fn, em = e2gen.fn_same_behaviour(f'eq_{cid}_{vn}_{pl.name}', T, f'{vid}::{vm["root_type"]}', root, pl)
                        gen_fns.append(fn)
                        h(f'e2_eq_{cid}_{vn}_{pl.name}', f'|s| gen::eq_{cid}_{vn}_{pl.name}(s)', ['C14'],
                          f'{cid}: type generated under default settings vs under `{vn}`: same instances accepted, same JSON written ({pl.descr})',
                          'quick' if pl.name == 'p' else 'thorough')
            if c['settings'].get('builder') and meta['root_type'] in meta.get('builders', []):
                fields = meta['structs'].get(meta['root_type'])
                if fields and not any(f['flatten'] for f in fields):
                    for pl in plans:
                        fn, em = e2gen.fn_builder(f'bd_{cid}_{pl.name}', cid, meta['root_type'], fields, root, pl)
                        if fn:
                            gen_fns.append(fn)
                            h(f'e2_bd_{cid}_{pl.name}', f'|s| gen::bd_{cid}_{pl.name}(s)', ['C18', 'C06'],
                              f'{cid}: builder; setters called for the members present ({pl.descr}) with symbolic values: try_into ok iff required members set and conversions ok; equals deserializing the same members (defaults filled); struct -> builder -> struct identity',
                              'quick' if pl.name in ('p', 'p0') or pl.name.startswith('m') else 'thorough')
            extra_code[cid] = '\n\n'.join(gen_fns)

    # ---- C04: origin types through schemars and both ingestion routes
    for oname, o in sorted(index.get('__origin', {}).items()):
        schema = o['schema']
        defs = schema.get('definitions', {})
        try:
            root = e2gen.tree({k: v for k, v in schema.items() if k not in ('$schema', 'definitions', 'title')}, defs)
        except e2gen.Unsupported as e:
            skipped[f'origin {oname}'] = f'outside the fragment of the structural emitter: {e}'
            continue
        cn = e2gen.counts(root)
        P = e2gen.Plan
        oplans = [P(name='p', descr='all members present, strings of one 1-byte scalar, arrays of 1'),
                  P(name='p2', widths=(2, 1), array_len=2, compound_null=True, pick=1, descr='strings of a 2-byte and a 1-byte scalar, arrays of 2'),
                  P(name='pe', widths=(), array_len=0, pick=2, descr='empty strings and arrays')]
        try:
            dry = e2gen.build_prelude(root, P())
        except e2gen.Unsupported as e:
            skipped[f'origin {oname}'] = str(e)
            continue
        req = {i for i, m in enumerate(dry.members) if m['prop']['required']}
        if dry.members and len(req) < len(dry.members):
            oplans.append(P(name='p0', widths=(3,), present=req, pick=3, descr='only the required members present; strings of one 3-byte scalar'))
        fns = []
        for route in ('root', 'defs'):
            r = o.get(route, {})
            if not r.get('ok'):
                skipped[f'origin {oname} via {route}'] = r.get('error', 'missing')
                continue
            mods.append(r['module'])
            for pl in oplans:
                fname = f'wc_{oname.lower()}_{route}_{pl.name}'
                fn, em = e2gen.fn_wirecompat(fname, f'crate::origin::{oname}', f'{r["module"]}::{r["type"]}', root, pl)
                fns.append(fn)
                h(f'e2_{fname}', f'|s| gen::{fname}(s)', ['C04'],
                  f'origin type {oname} (serde derive) vs the type typify generates from its schemars schema ingested as {"the root document" if route == "root" else "a member of the definitions map"}: '
                  f'for every value obtained from a schema-shaped document ({pl.descr}): the generated type accepts its serialization and writes back the same document',
                  'quick' if pl.name in ('p', 'p0') else 'thorough')
        extra_code[f'origin_{oname}'] = '\n\n'.join(fns)

    with open(os.path.join(GEN, 'mod.rs'), 'w') as f:
        f.write('// @generated by /verif/lib/corpus.py: modules = output of the real typify for each corpus case; functions = straight-line harness code\n')
        f.write('#![allow(unused_imports, unused_variables, unused_mut, clippy::all)]\nuse crate::sch::*;\nuse crate::src::Src;\nuse crate::tok::{from_doc, to_doc, Doc, Tok, E, K};\n')
        for m in mods:
            f.write(f'#[allow(warnings, clippy::all)]\n#[path = "{m}.rs"]\npub mod {m};\n')
        for cid, code in extra_code.items():
            f.write(f'\n// ---------------------------------------------------------------- {cid}\n{code}\n')
    with open(os.path.join(GEN, 'harnesses.rs'), 'w') as f:
        f.write('// @generated\n#![allow(unused_imports)]\nuse crate::gen::{self, *};\nuse crate::bodies::{self, Near};\n')
        f.write('crate::harnesses! {\n')
        for name, unwind, expr, props, descr, tier in harness:
            f.write(f'    #[kani::unwind({unwind})] {name} => {expr};\n')
        f.write('}\n')
    json.dump({'harnesses': [{'name': n, 'props': p, 'descr': d, 'tier': t, 'unwind': u} for n, u, e, p, d, t in harness], 'skipped': skipped},
              open(os.path.join(GEN, 'harnesses.json'), 'w'), indent=1)


if __name__ == '__main__':
    err = main(sys.argv[1] if len(sys.argv) > 1 else 'quick')
    if err:
        print(err)
        sys.exit(1)
    hs = json.load(open(os.path.join(GEN, 'harnesses.json')))
    print(len(hs['harnesses']), 'harnesses;', 'skipped:', hs['skipped'])
