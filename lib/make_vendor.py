#!/usr/bin/env python3
"""Build a cargo *directory source* from the already-unpacked registry sources,
for every registry package named in a Cargo.lock. Nothing is downloaded.

Kani's cargo (1.100-nightly) hashes the registry directory name differently from
the repository's pinned toolchain, so it cannot see the crates the normal build
uses; `cargo vendor` needs the index. A directory source works for both cargos.

usage: make_vendor.py <Cargo.lock> <out_dir>
"""
import glob
import json
import os
import re
import shutil
import sys


def main():
    lock = open(sys.argv[1]).read()
    out = sys.argv[2]
    pk = re.findall(
        r'\[\[package\]\]\nname = "([^"]+)"\nversion = "([^"]+)"\n'
        r'(?:source = "([^"]+)"\n)?(?:checksum = "([^"]+)"\n)?', lock)
    srcs = sorted(glob.glob(os.path.expanduser('~/.cargo/registry/src/*')))
    os.makedirs(out, exist_ok=True)
    missing = []
    n = 0
    for name, ver, source, cks in pk:
        if not source:
            continue
        d = next((os.path.join(s, f'{name}-{ver}') for s in srcs
                  if os.path.isdir(os.path.join(s, f'{name}-{ver}'))), None)
        if not d:
            missing.append(f'{name}-{ver}')
            continue
        dst = os.path.join(out, f'{name}-{ver}')
        if not os.path.exists(dst):
            shutil.copytree(d, dst, symlinks=True)
        with open(os.path.join(dst, '.cargo-checksum.json'), 'w') as f:
            json.dump({"files": {}, "package": cks}, f)
        n += 1
    # Kani ICEs (intrinsics.rs:243) on any reachable catch_unwind; the only one
    # on our paths is proc-macro2's compiler-bridge fallback, dead outside a
    # proc-macro expansion. Patch the vendored copy only.
    fb = os.path.join(out, 'proc-macro2-1.0.94', 'src', 'fallback.rs')
    if os.path.exists(fb):
        s = open(fb).read()
        s2 = s.replace('panic::catch_unwind(|| Self::from_str(src))',
                       'Ok::<_, ()>(Self::from_str(src))')
        if s2 != s:
            open(fb, 'w').write(s2)
            print('patched proc-macro2 fallback.rs')
    print(f'vendored {n} packages; missing (not unpacked, unused by the normal build): {len(missing)}')


if __name__ == '__main__':
    main()
