#!/usr/bin/env python3
"""Driver: `bin/check <property> [--tier quick|thorough] [--replay <file>]`.

exit 0  property held on everything explored (KNOWN-FINDING lines allowed)
exit 1  `VIOLATION property=<id> replay=<path>` printed: a solver counterexample
        that reproduces against the native build of /repo
exit 2  inconclusive (build failure, timeout, out of memory, unwinding bound too
        small, counterexample that does not reproduce): never success, never
        VIOLATION
"""
import json
import os
import random
import shutil
import subprocess
import sys
import time

sys.path.insert(0, os.path.dirname(os.path.abspath(__file__)))
import cex  # noqa: E402
import kani_run  # noqa: E402
import plan  # noqa: E402

VERIF = kani_run.VERIF
CACHE = kani_run.CACHE
REPO = '/repo'


def log(*a):
    print(*a, flush=True)


def load_known():
    p = os.path.join(VERIF, 'known-findings.json')
    if not os.path.exists(p):
        return []
    return [k for k in json.load(open(p)).get('findings', []) if k.get('status') == 'open']


def verdict_cache_path(engine, key, harness):
    d = os.path.join(CACHE, 'verdicts', engine, key)
    os.makedirs(d, exist_ok=True)
    return os.path.join(d, harness + '.json')


def save_goto(engine, key, harness, goto_file, crate):
    """Copy the linked goto binary Kani left for `harness` next to its verdict.
    Returns the copy's path, or None when the binary cannot be found."""
    src = (goto_file or '').replace('.symtab.out', '.out')
    if not (src and os.path.exists(src)):
        src = cex.find_goto(os.path.join(CACHE, f'target-{engine}'), crate, harness)
    if not (src and os.path.exists(src)):
        return None
    dst = verdict_cache_path(engine, key, harness)[:-len('.json')] + '.goto'
    shutil.copyfile(src, dst)
    return dst


def native_build(engine, profile):
    e = plan.ENGINES[engine]
    tdir = os.path.join(CACHE, f'target-{engine}-native')
    cmd = ['cargo', 'build', '--target-dir', tdir]
    if profile == 'release':
        cmd.append('--release')
    env = dict(os.environ, RUSTUP_TOOLCHAIN=kani_run.KANI_TOOLCHAIN, CARGO_NET_OFFLINE='true')
    r = subprocess.run(cmd, cwd=e['dir'], capture_output=True, text=True, env=env)
    if r.returncode != 0:
        return None, r.stderr[-3000:]
    return os.path.join(tdir, 'release' if profile == 'release' else 'debug', e['bin']), None


def native_replay(engine, harness, draws):
    """Replays in the dev profile (what Kani models) and in release (what users
    run). Returns {profile: {...}}."""
    out = {}
    for profile in ('dev', 'release'):
        binp, err = native_build(engine, profile)
        if binp is None:
            out[profile] = {'outcome': 'build-failed', 'detail': err}
            continue
        r = subprocess.run([binp, harness, json.dumps(draws)], capture_output=True, text=True, timeout=600)
        try:
            j = json.loads(r.stdout.strip().splitlines()[-1])
        except Exception:  # noqa
            j = {'outcome': 'crashed' if r.returncode not in (0, 3) else 'unparsable', 'stderr': r.stderr[-1500:]}
        j['exit'] = r.returncode
        out[profile] = j
    return out


def reproduced(rep):
    return any(v.get('outcome') in ('assertion-failed', 'crashed') for v in rep.values())


def relevant(pid, msg):
    """A failed check concerns property `pid` if its message is tagged with it
    ("C10/C06: ..."), or carries no property tag at all (a panic / overflow /
    failed unwrap inside the real code reached by the harness)."""
    head = msg.strip().strip('"').split(':', 1)[0]
    tags = [t for t in head.split('/') if t in plan.ALL_IDS]
    return (pid in tags) if tags else True


def main():
    args = sys.argv[1:]
    if not args:
        print(__doc__)
        return 2
    pid = args[0]
    tier = os.environ.get('VERIF_TIER', 'quick')
    replay = None
    i = 1
    while i < len(args):
        if args[i] == '--tier':
            tier = args[i + 1]
            i += 2
        elif args[i] == '--replay':
            replay = args[i + 1]
            i += 2
        else:
            i += 1
    seed = int(os.environ.get('VERIF_SEED', '0') or 0)
    if pid not in plan.PLAN:
        log(f'{pid}: not claimed (see MANIFEST.json not_applicable)')
        return 2
    P = plan.PLAN[pid]

    if replay:
        rj = json.load(open(replay))
        rep = native_replay(rj['engine'], rj['harness'], rj['draws'])
        log(json.dumps(rep, indent=1))
        if reproduced(rep):
            log(f'VIOLATION property={pid} replay={replay}')
            return 1
        return 0

    t0 = time.time()
    rng = random.Random(seed)
    results = {}
    reused = 0
    inconclusive = []
    key_by_engine = {}
    prepared = {}
    # engines that generate their harness crate from /repo do so first (the
    # harness list of a property depends on what was generated)
    for engine in P['engines']:
        E = plan.ENGINES[engine]
        if E.get('prepare'):
            with kani_run.EngineLock(engine):
                err = E['prepare'](tier)
            prepared[engine] = err
            if err:
                inconclusive.append(f'{engine}: generating the harness crate from /repo failed: {err}')
    units = P['units'](tier, rng)          # [(engine, harness, descr)]
    units = [u for u in units if not prepared.get(u[0])]
    engines = sorted({u[0] for u in units})
    for engine in engines:
        E = plan.ENGINES[engine]
        hs = [u[1] for u in units if u[0] == engine]
        with kani_run.EngineLock(engine):
            if E.get('prepare'):
                # regenerate under the lock: another check may have run in between
                err = E['prepare'](tier)
                if err:
                    inconclusive.append(f'{engine}: prepare failed: {err}')
                    continue
            key = kani_run.tree_hash(E['hash_paths']) + f'-{tier}'
            key_by_engine[engine] = key
            todo = []
            for h in hs:
                cp = verdict_cache_path(engine, key, h)
                if os.path.exists(cp) and not os.environ.get('VERIF_NO_CACHE'):
                    r = json.load(open(cp))
                    # a FAILED verdict is only reused together with the goto binary it was
                    # decided on (saved next to the verdict, below): the target dir is
                    # shared, pruned and overwritten by later batches
                    if r.get('status') == 'SUCCESSFUL' or (r.get('goto_saved') and os.path.exists(r['goto_saved'])):
                        r['reused'] = True
                        results[h] = r
                        reused += 1
                        continue
                todo.append(h)
            if todo:
                cap = P['timeout'][tier]
                jobs = int(os.environ.get('VERIF_JOBS', '12'))
                logp = os.path.join(CACHE, f'log-{engine}-{pid}-{tier}.txt')
                log(f'[{pid}] {engine}: running {len(todo)} harness(es) with Kani (cap {cap}s each, -j {min(jobs, len(todo))}); log {logp}')
                res, err, wall = kani_run.run_batch(engine, E['dir'], E['crate'], todo, cap, jobs, logp, prefix=E.get('harness_prefix', ''))
                if err:
                    inconclusive.append(f'{engine}: {err}')
                for h, r in res.items():
                    r['reused'] = False
                    r['ran_at'] = time.strftime('%Y-%m-%dT%H:%M:%S')
                    results[h] = r
                    if r['status'] == 'FAILED':
                        # keep the goto binary of a failed harness (still under the engine
                        # lock): counterexample extraction runs after the lock is released
                        r['goto_saved'] = save_goto(engine, key, h, r.get('goto_file'), E['crate'])
                    if r['status'] in ('SUCCESSFUL', 'FAILED') and 'timeout' not in r['notes']:
                        json.dump(r, open(verdict_cache_path(engine, key, h), 'w'))

    known = [k for k in load_known() if k['property'] == pid]
    violations = []
    skipped_after_violation = []
    known_hits = []
    held = 0
    nontrivial = 0
    obligations = discharged = 0
    solver_s = 0.0
    samples = []
    for engine, h, descr in units:
        r = results.get(h)
        if r is None or r.get('status') is None:
            inconclusive.append(f'{h}: no verdict (did not run)')
            continue
        pr = r.get('props') or {}
        obligations += (pr.get('total_properties') or r.get('total_n') or 0)
        discharged += (pr.get('passed') or 0)
        st = r.get('stats') or {}
        solver_s += (st.get('runtime_symex_s') or 0) + (st.get('runtime_decision_procedure_s') or 0)
        sample = {'harness': h, 'symbolic': descr, 'verdict': r['status'], 'seconds': r.get('duration_s'),
                  'cbmc_checks': pr.get('total_properties'), 'covers_satisfied': r.get('covers'), 'reused_verdict': r.get('reused', False)}
        samples.append(sample)
        if 'timeout' in r['notes'] or 'error' in r['notes']:
            inconclusive.append(f'{h}: {",".join(r["notes"])}')
            continue
        if r['status'] == 'SUCCESSFUL':
            held += 1
            cv = r.get('covers')
            if cv and cv[0] >= 1:
                nontrivial += 1
            continue
        # FAILED
        fcs = r.get('failed_checks', [])
        unwinding = [f for f in fcs if 'unwinding assertion' in f]
        if unwinding:
            inconclusive.append(f'{h}: unwinding bound too small ({unwinding[0]})')
            continue
        broken = [f for f in fcs if f.strip().strip('"').startswith('harness:')]
        if broken:
            inconclusive.append(f'{h}: a harness self-check failed ({broken[0]}): the harness does not fit the generated code any more')
            continue
        mine = [f for f in fcs if relevant(pid, f)]
        if not mine:
            if fcs:
                held += 1
                sample['verdict'] = 'held for this property (a check of another property failed in the shared harness)'
                continue
            inconclusive.append(f'{h}: FAILED without a failed check description')
            continue
        # counterexample extraction + native replay, one per failed check
        E = plan.ENGINES[engine]
        for msg in mine:
            if violations:
                # one replayed violation is enough to fail the check; extracting a
                # trace costs minutes per failed check
                skipped_after_violation.append(f'{h}: {msg}')
                continue
            needle = msg.strip('"')
            goto = r.get('goto_saved')
            if not (goto and os.path.exists(goto)):
                inconclusive.append(f'{h}: check {needle!r} failed but the goto binary of this run was not kept ({goto})')
                continue
            ids = cex.property_ids(goto, needle)
            got = None
            why = 'no CBMC property carries this description'
            for prop in ids:
                draws, why, secs = cex.extract(goto, prop, E['unwind'], P['timeout'][tier] * 2)
                if draws is not None:
                    got = (prop, draws, secs)
                    break
            if not got:
                inconclusive.append(f'{h}: check {needle!r} failed but no counterexample could be extracted ({why})')
                continue
            prop, draws, secs = got
            rep = native_replay(engine, h, draws)
            rid = f'{pid}-{h}-{abs(hash(json.dumps(draws))) % 10**8:08d}'
            rpath = os.path.join(VERIF, 'replays', rid + '.json')
            os.makedirs(os.path.dirname(rpath), exist_ok=True)
            json.dump({'property': pid, 'engine': engine, 'harness': h, 'failed_check': needle, 'cbmc_property': prop,
                       'draws': draws, 'extract_s': secs, 'native': rep, 'repo_tree': key_by_engine.get(engine)},
                      open(rpath, 'w'), indent=1)
            if not reproduced(rep):
                inconclusive.append(f'{h}: counterexample for {needle!r} does not reproduce natively (encoding or stub wrong?) see {rpath}')
                continue
            k = plan.match_known(known, h, needle, rep)
            if k:
                known_hits.append((k, h, needle))
            else:
                violations.append((h, needle, rpath, rep))

    wall = time.time() - t0
    for k, h, needle in known_hits:
        log(f"KNOWN-FINDING: property={pid} {k['id']} {k['what']} (harness {h})")
    for h, needle, rpath, rep in violations:
        inp = next((v.get('inputs') for v in rep.values() if v.get('inputs')), None)
        log(f'counterexample in {h}: {needle}; inputs: {json.dumps(inp)}')
        log(f'VIOLATION property={pid} replay={rpath}')
    for m in inconclusive:
        log(f'INCONCLUSIVE: {m}')

    ev = {
        'property_id': pid,
        'tier': tier,
        'seed': seed,
        'level': 'other',
        'coverage': {
            'explanation': P['explanation'],
            'evaluations': len(units),
            'distinct_nontrivial': nontrivial,
            'rule': 'one evaluation = one Kani harness = one SAT query family over all values of its symbolic inputs (bounds below); '
                    'non-trivial = verdict SUCCESSFUL with at least one kani::cover! witness satisfied (assertion site reachable, assumptions satisfiable); '
                    'harnesses are distinct by construction (different concrete layout / format / schema)',
            'samples': samples,
            'obligations': obligations,
            'discharged': discharged,
            'functions_encoded': P['functions'],
            'bounds': P['bounds'],
            'outside_bounds': P['outside'],
            'stubs': plan.STUBS + P.get('stubs', []),
            'solver_time_s': round(solver_s, 1),
            'verdicts_reused_from_cache': reused,
            'harnesses_held': held,
            'known_findings_seen': [k['id'] for k, _, _ in known_hits],
            'inconclusive': inconclusive,
            'failed_checks_not_replayed_after_first_violation': skipped_after_violation,
            'kani': 'kani 0.68.0 / CBMC 6.11.0 / CaDiCaL',
            'repo_tree_hash': key_by_engine,
            'exhaustive': False,
        },
        'assumptions': P['assumptions'],
        'wall_s': round(wall, 1),
        'violations': len(violations),
    }
    os.makedirs(os.path.join(VERIF, 'evidence'), exist_ok=True)
    json.dump(ev, open(os.path.join(VERIF, 'evidence', f'{pid}.json'), 'w'), indent=1)
    log(f'[{pid}] tier={tier} harnesses={len(units)} held={held} violations={len(violations)} known={len(known_hits)} inconclusive={len(inconclusive)} wall={wall:.0f}s')
    if violations:
        return 1
    if inconclusive:
        return 2
    return 0


if __name__ == '__main__':
    try:
        rc = main()
    except Exception:  # noqa: a crash of the driver is never a verdict
        import traceback
        traceback.print_exc()
        print('INCONCLUSIVE: driver error (see traceback)')
        rc = 2
    sys.exit(rc)
