"""Run a batch of Kani harnesses of one engine crate and return structured
per-harness results. Deciding step: CBMC's verdict per harness."""
import fcntl
import glob
import hashlib
import json
import os
import re
import shutil
import subprocess
import time

VERIF = os.path.dirname(os.path.dirname(os.path.abspath(__file__)))
CACHE = os.path.join(VERIF, '.cache')
KANI_TOOLCHAIN = 'nightly-2026-08-21'


def sh(cmd, **kw):
    return subprocess.run(cmd, capture_output=True, text=True, **kw)


def tree_hash(paths, exclude=('target', '.git', '.cache', '__pycache__')):
    """Content hash of source trees; verdict-cache key and evidence stamp."""
    h = hashlib.sha256()
    for root in paths:
        if os.path.isfile(root):
            h.update(root.encode())
            h.update(open(root, 'rb').read())
            continue
        for d, dirs, files in os.walk(root):
            dirs[:] = sorted(x for x in dirs if x not in exclude)
            for f in sorted(files):
                p = os.path.join(d, f)
                if f == 'Cargo.lock' and VERIF in p:
                    continue
                try:
                    data = open(p, 'rb').read()
                except OSError:
                    continue
                h.update(p.encode())
                h.update(b'\0')
                h.update(data)
    return h.hexdigest()[:20]


class EngineLock:
    """Serialises use of one engine's target dir across concurrently running checks."""

    def __init__(self, name):
        os.makedirs(CACHE, exist_ok=True)
        self.path = os.path.join(CACHE, f'lock-{name}')

    def __enter__(self):
        self.f = open(self.path, 'w')
        fcntl.flock(self.f, fcntl.LOCK_EX)
        return self

    def __exit__(self, *a):
        fcntl.flock(self.f, fcntl.LOCK_UN)
        self.f.close()


def prune_target(target_dir, crate, keep_files=()):
    """Kani leaves one build dir per distinct compilation of the harness crate;
    keep only those holding the goto binaries of the current run."""
    pat = os.path.join(target_dir, 'kani', '*', 'debug', 'build', crate, '*')
    keep = {os.path.dirname(os.path.dirname(f)) for f in keep_files if f}
    if not keep:
        return
    for d in glob.glob(pat):
        if d not in keep:
            shutil.rmtree(d, ignore_errors=True)


def parse_text(log):
    """Per-harness failed-check descriptions and statuses from Kani's terse output."""
    cur = {}
    out = {}
    last = None
    single = None
    for line in log.splitlines():
        m = re.match(r'(?:Thread (\d+): )?Checking harness (\S+?)\.\.\.', line)
        if m:
            t = m.group(1) or '-'
            cur[t] = m.group(2)
            out.setdefault(m.group(2), {'failed_checks': [], 'text_status': None, 'notes': []})
            if m.group(1) is None:
                single = m.group(2)
                last = '-'
            continue
        m = re.match(r'Thread (\d+): *$', line)
        if m:
            last = m.group(1)
            continue
        h = cur.get(last) if last is not None else single
        if h is None:
            continue
        m = re.match(r'Failed Checks: (.*)', line)
        if m:
            out[h]['failed_checks'].append(m.group(1).strip())
        m = re.match(r'VERIFICATION:- (\w+)', line)
        if m:
            out[h]['text_status'] = m.group(1)
        if 'CBMC timed out' in line:
            out[h]['notes'].append('timeout')
        if 'out of memory' in line.lower() or 'Status: ERROR' in line:
            out[h]['notes'].append('error')
        m = re.match(r' \*\* (\d+) of (\d+) cover properties satisfied', line)
        if m:
            out[h]['covers'] = (int(m.group(1)), int(m.group(2)))
        m = re.match(r' \*\* (\d+) of (\d+) failed', line)
        if m:
            out[h]['failed_n'] = int(m.group(1))
            out[h]['total_n'] = int(m.group(2))
    return out


def run_batch(engine, crate_dir, crate, harnesses, unit_timeout_s, jobs, log_path, extra_args=(), prefix=''):
    """One `cargo kani` invocation over `harnesses` (exact names). Returns
    (results: {harness: {...}}, build_error or None)."""
    target_dir = os.path.join(CACHE, f'target-{engine}')
    export = os.path.join(CACHE, f'export-{engine}-{os.getpid()}.json')
    if os.path.exists(export):
        os.remove(export)
    cmd = ['cargo', 'kani', '-Z', 'stubbing', '-Z', 'unstable-options', '--exact']
    for h in harnesses:
        cmd += ['--harness', prefix + h]
    cmd += ['-j', str(max(1, min(jobs, len(harnesses)))), '--harness-timeout', str(int(unit_timeout_s)),
            '--target-dir', target_dir, '--output-format', 'terse', '--export-json', export]
    cmd += list(extra_args)
    env = dict(os.environ)
    env['CARGO_NET_OFFLINE'] = 'true'
    env.pop('RUSTUP_TOOLCHAIN', None)
    t0 = time.time()
    # generous outer cap: build + ceil(n/jobs) waves
    waves = -(-len(harnesses) // max(1, min(jobs, len(harnesses))))
    outer = 600 + waves * (unit_timeout_s + 120)
    with open(log_path, 'w') as lf:
        try:
            p = subprocess.run(cmd, cwd=crate_dir, stdout=lf, stderr=subprocess.STDOUT, env=env, timeout=outer)
            rc = p.returncode
        except subprocess.TimeoutExpired:
            rc = -9
    wall = time.time() - t0
    log = open(log_path, errors='replace').read()
    text = {k.split('::')[-1]: v for k, v in parse_text(log).items()}
    results = {}
    exp = None
    if os.path.exists(export):
        try:
            exp = json.load(open(export))
        except Exception:  # noqa
            exp = None
        os.remove(export)
    if not text and (exp is None):
        # nothing ran: compile error or cargo failure
        tail = '\n'.join(l for l in log.splitlines() if l.startswith('error') or 'error[' in l)[:4000]
        return {}, f'cargo kani produced no harness results (rc={rc}); {tail or log[-2000:]}', wall
    by = {}
    if exp:
        for hm in exp.get('harness_metadata', []):
            by.setdefault(hm['pretty_name'].split('::')[-1], {})['goto_file'] = hm.get('goto_file')
        for pd in exp.get('property_details', []):
            by.setdefault(pd['harness_id'].split('::')[-1], {})['props'] = pd.get('property_details')
        for c in exp.get('cbmc', []):
            by.setdefault(c['harness_id'].split('::')[-1], {})['stats'] = c.get('cbmc_stats')
        for r in (exp.get('verification_results') or {}).get('results', []):
            hid = r['harness_id'].split('::')[-1]
            by.setdefault(hid, {})['status'] = r.get('status')
            by[hid]['duration_s'] = r.get('duration_ms', 0) / 1000.0
    for h in harnesses:
        t = text.get(h, {})
        e = by.get(h, {})
        status = t.get('text_status')
        if status is None and e.get('status') == 'Success':
            status = 'SUCCESSFUL'
        res = {
            'harness': h,
            'status': status,                      # SUCCESSFUL / FAILED / None (did not run)
            'failed_checks': t.get('failed_checks', []),
            'notes': t.get('notes', []),
            'covers': t.get('covers'),
            'props': e.get('props'),
            'stats': e.get('stats'),
            'duration_s': e.get('duration_s'),
            'goto_file': e.get('goto_file'),
        }
        results[h] = res
    prune_target(target_dir, crate, [r.get('goto_file') for r in results.values()])
    return results, None, wall
