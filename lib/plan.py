"""What each claimed property runs: engines, harness lists per tier, stated
bounds, and the text that goes into the evidence file."""
import os

VERIF = os.path.dirname(os.path.dirname(os.path.abspath(__file__)))
REPO = '/repo'

ALL_IDS = ['C%02d' % i for i in range(1, 20)]

STUBS = [
    'std::rt::thread_cleanup -> no-op (Kani 0.68 ICE on catch_unwind; not on any path of the code under test)',
    'vendored proc-macro2 1.0.94 fallback.rs: catch_unwind(..) -> direct call (compiler-bridge path, Kani build only)',
    'results/entries are leaked (mem::forget) instead of dropped at the end of harnesses and hooks (drop glue cost)',
]

ENGINES = {
    'e1': {
        'dir': os.path.join(VERIF, 'kani', 'e1'),
        'crate': 'verif-e1',
        'bin': 'verif-e1',
        'unwind': 24,
        'hash_paths': [os.path.join(REPO, 'typify-impl'), os.path.join(REPO, 'Cargo.toml'), os.path.join(REPO, 'Cargo.lock'),
                       os.path.join(VERIF, 'kani', 'e1')],
    },
}

INT_FORMATS = ['int8', 'uint8', 'int16', 'uint16', 'int', 'int32', 'uint', 'uint32', 'int64', 'uint64']
C10_SYMBOLIC = ('minimum, maximum, exclusiveMinimum, exclusiveMaximum: each absent or any finite f64; multipleOf in {absent, 2}; '
                'default: absent or any integer of i64 ∪ u64; probe integer: any of i64 ∪ u64')


def c10_units(tier, rng):
    if tier == 'thorough':
        fmts = INT_FORMATS
    else:
        # quick: no-format and unknown-format always (they walk the whole type
        # table), one 64-bit format, plus two more formats rotated by the seed
        rest = [f for f in INT_FORMATS if f not in ('int64', 'uint64')]
        fmts = [rng.choice(['int64', 'uint64'])] + rng.sample(rest, 2)
    hs = ['c10_none', 'c10_unknown'] + ['c10_' + f for f in fmts]
    return [('e1', h, f'format={h[4:]}; ' + C10_SYMBOLIC) for h in hs]


def match_known(known, harness, failed_check, replay):
    """A known finding matches by harness prefix + failed-check text + a predicate
    over the replayed inputs; anything else is a new violation."""
    for k in known:
        if not harness.startswith(k.get('harness_prefix', '')):
            continue
        if k.get('check_contains', '') not in failed_check:
            continue
        pred = k.get('input_predicate')
        if pred:
            inputs = next((v.get('inputs') for v in replay.values() if v.get('inputs')), {}) or {}
            try:
                if not eval(pred, {'__builtins__': {}}, {'inputs': inputs}):  # noqa: S307 (file is committed, not user input)
                    continue
            except Exception:  # noqa
                continue
        return k
    return None


C10_FUNCS = ['typify_impl::TypeSpace::convert_integer (typify-impl/src/convert.rs) via verif_hooks::convert_integer',
             'typify_impl::type_entry::TypeEntry::new_integer', 'serde_json::Number::{from, as_f64, is_i64, is_u64}']
C10_BOUNDS = {
    'format': 'one harness per concrete format string: absent, unknown ("int128"), and the 10 recognised integer formats (quick: absent, unknown and 3 seed-rotated formats; thorough: all 12)',
    'numeric keywords': 'each of minimum/maximum/exclusiveMinimum/exclusiveMaximum absent or ANY finite f64 (2^64 bit patterns each, minus NaN/inf)',
    'multipleOf': 'absent or 2',
    'default': 'absent or any integer of i64 ∪ u64 (as serde_json::Number)',
    'probe': 'any integer of i64 ∪ u64; admitted(n) is evaluated on f64(n) against the declared bounds and exactly against the format range',
    'unwind': 24,
}
C10_OUTSIDE = ['NaN / infinite bounds (not expressible in JSON)', 'integers outside i64 ∪ u64 (serde_json cannot carry them)',
               'non-integral and non-numeric defaults (rejected later by validate_value, not by this kernel)',
               'multipleOf other than 2', 'the link from the selected type name to the emitted tokens (rendering is outside the family\'s reach)']

PLAN = {
    'C10': {
        'engines': ['e1'],
        'technique': 'bounded symbolic execution + SAT (Kani/CBMC) of convert_integer over all finite f64 bounds',
        'level_text': 'bounded symbolic verification (Kani/CBMC) of the compiled convert_integer: all finite f64 values of the four bounds, an integer default and a probe integer per concrete format; the verdict is for those bounds only; the link from type name to rendered tokens is outside',
        'level_note': 'trusts Kani\'s MIR-to-goto translation, CBMC and CaDiCaL; integers compared with bounds in f64 as typify receives them; stubs listed in the evidence file',
        'units': c10_units,
        'timeout': {'quick': 1500, 'thorough': 3000},
        'functions': C10_FUNCS,
        'bounds': C10_BOUNDS,
        'outside': C10_OUTSIDE,
        'assumptions': ['bounds are finite f64', 'integers are compared with f64 bounds after conversion to f64 (what schemars/serde_json hand typify)',
                        'a recognised integer format is read as a range; where declared bounds reach beyond the format the default-rejection clause only demands the declared bounds',
                        'beyond i64::MAX the documented fallback type i64 is accepted as the widest choice',
                        'CBMC/Kani translation of the compiled MIR is trusted'],
        'explanation': ('Bounded symbolic verification (Kani 0.68 / CBMC 6.11, SAT) of the real convert_integer compiled from /repo: for every combination of the four '
                        'numeric bounds (all finite f64), multipleOf, an integer default and a probe integer, per concrete format, the solver shows that '
                        '(A1) every admitted integer is representable in the selected type (NonZero only when 0 is excluded; i64 fallback only beyond i64::MAX), '
                        '(A3) a recognised format with no contradicting keyword selects its documented type and unknown/absent formats select i64, '
                        '(A4a) an accepted default is a value of the selected type, (A4b) a default outside the admitted range is an error. '
                        'No state graph is explored, hence level "other"; every verdict is for the stated bounds only.'),
    },
}
PLAN['C06'] = dict(PLAN['C10'])

# Claimed in DESIGN.md but not built yet: listed as not applicable until their
# check exists (MANIFEST must never claim what does not run).
NOT_YET = {
    'C02': 'planned (engine E2, generated-code harnesses): not built yet in this snapshot',
    'C03': 'planned (engine E2): not built yet in this snapshot',
    'C04': 'planned second wave (engine E2): not built yet in this snapshot',
    'C05': 'planned (engines E1+E2): not built yet in this snapshot',
    'C09': 'planned (engine E1 merge kernels): not built yet in this snapshot',
    'C11': 'planned (engine E2): not built yet in this snapshot',
    'C14': 'planned second wave (engine E2): not built yet in this snapshot',
    'C18': 'planned (engine E2): not built yet in this snapshot',
}
