"""What each claimed property runs: engines, harness lists per tier, stated
bounds, and the text that goes into the evidence file."""
import os

VERIF = os.path.dirname(os.path.dirname(os.path.abspath(__file__)))
REPO = '/repo'

ALL_IDS = ['C%02d' % i for i in range(1, 20)]

STUBS = [
    'std::rt::thread_cleanup -> no-op (Kani 0.68 ICE on catch_unwind; not on any path of the code under test)',
    'vendored proc-macro2 1.0.94 fallback.rs: catch_unwind(..) -> direct call (compiler-bridge path, Kani build only)',
    'results/entries are leaked (mem::forget) instead of dropped at the end of harnesses and hooks (drop glue cost)',
]

ENGINES = {
    'e1': {
        'dir': os.path.join(VERIF, 'kani', 'e1'),
        'crate': 'verif-e1',
        'bin': 'verif-e1',
        'unwind': 24,
        'warm_harness': 'c09_it_00',
        'hash_paths': [os.path.join(REPO, 'typify-impl'), os.path.join(REPO, 'Cargo.toml'), os.path.join(REPO, 'Cargo.lock'),
                       os.path.join(VERIF, 'kani', 'e1')],
    },
}

def _prepare_e2(tier):
    import corpus
    return corpus.main(tier)


ENGINES['e2'] = {
    'dir': os.path.join(VERIF, 'kani', 'e2'),
    'crate': 'verif-e2',
    'bin': 'verif-e2',
    'unwind': 26,
    'warm_harness': 'e2_in_small',
    'harness_prefix': 'harnesses_gen::',
    'prepare': _prepare_e2,
    # generated sources are part of the hash: they are a function of /repo's typify-impl
    'hash_paths': [os.path.join(REPO, 'typify-impl'), os.path.join(REPO, 'Cargo.toml'), os.path.join(REPO, 'Cargo.lock'),
                   os.path.join(VERIF, 'kani', 'e2'), os.path.join(VERIF, 'kani', 'e1', 'src', 'src.rs'), os.path.join(VERIF, 'genner', 'src'),
                   os.path.join(VERIF, 'lib', 'corpus.py'), os.path.join(VERIF, 'lib', 'e2gen.py')],
}


def e2_harnesses():
    import json
    p = os.path.join(VERIF, 'kani', 'e2', 'src', 'gen', 'harnesses.json')
    if not os.path.exists(p):
        return [], {}
    j = json.load(open(p))
    return j['harnesses'], j.get('skipped', {})


def e2_select(pid, tier, rng, core, sample_n, families=None):
    """Harnesses of engine E2 serving property `pid`: in the thorough tier all of
    them; in the quick tier those matching a `core` regex plus `sample_n` of the
    remaining quick-marked ones chosen by the seed."""
    import re
    hs, _ = e2_harnesses()
    mine = [h for h in hs if pid in h['props'] and (families is None or h['name'].split('_')[1] in families)]
    if tier == 'thorough':
        sel = mine
    else:
        corer = re.compile(core)
        fixed = [h for h in mine if corer.search(h['name'])]
        rest = [h for h in mine if h['tier'] == 'quick' and not corer.search(h['name'])]
        sel = fixed + rng.sample(rest, min(sample_n, len(rest)))
    return [('e2', h['name'], h['descr']) for h in sel]


INT_FORMATS = ['int8', 'uint8', 'int16', 'uint16', 'int', 'int32', 'uint', 'uint32', 'int64', 'uint64']
C10_SYMBOLIC = ('minimum, maximum, exclusiveMinimum, exclusiveMaximum: each absent or any finite f64; multipleOf in {absent, 2}; '
                'default: absent or any integer of i64 ∪ u64; probe integer: any of i64 ∪ u64')


def c10_units(tier, rng):
    if tier == 'thorough':
        fmts = INT_FORMATS
    else:
        # quick: no-format and unknown-format always (they walk the whole type
        # table), one 64-bit format, plus two more formats rotated by the seed
        rest = [f for f in INT_FORMATS if f not in ('int64', 'uint64')]
        fmts = [rng.choice(['int64', 'uint64'])] + rng.sample(rest, 2)
    hs = ['c10_none', 'c10_unknown'] + ['c10_' + f for f in fmts]
    units = [('e1', h, f'format={h[4:]}; ' + C10_SYMBOLIC) for h in hs]
    # string / float format tables: every ASCII format string of a given length
    lens = list(range(10)) if tier == 'thorough' else [4, rng.choice([0, 1, 2, 3, 5, 6, 7, 8, 9])]
    units += [('e1', f'c10_fmt_len{n}', f'every ASCII format string of {n} bytes: convert_string selects the documented native type or String, convert_number f32 for "float" else f64') for n in lens]
    return units


def match_known(known, harness, failed_check, replay):
    """A known finding matches by harness prefix + failed-check text + a predicate
    over the replayed inputs; anything else is a new violation."""
    for k in known:
        if not harness.startswith(k.get('harness_prefix', '')):
            continue
        if k.get('check_contains', '') not in failed_check:
            continue
        pred = k.get('input_predicate')
        if pred:
            inputs = next((v.get('inputs') for v in replay.values() if v.get('inputs')), {}) or {}
            try:
                if not eval(pred, {'__builtins__': {}, 'abs': abs, 'int': int, 'float': float, 'len': len}, {'inputs': inputs}):  # noqa: S307 (file is committed, not user input)
                    continue
            except Exception:  # noqa
                continue
        return k
    return None


C10_FUNCS = ['typify_impl::TypeSpace::convert_integer (typify-impl/src/convert.rs) via verif_hooks::convert_integer',
             'typify_impl::type_entry::TypeEntry::new_integer', 'serde_json::Number::{from, as_f64, is_i64, is_u64}']
C10_BOUNDS = {
    'format': 'one harness per concrete format string: absent, unknown ("int128"), and the 10 recognised integer formats (quick: absent, unknown and 3 seed-rotated formats; thorough: all 12)',
    'numeric keywords': 'each of minimum/maximum/exclusiveMinimum/exclusiveMaximum absent or ANY finite f64 (2^64 bit patterns each, minus NaN/inf)',
    'multipleOf': 'absent or 2',
    'default': 'absent or any integer of i64 ∪ u64 (as serde_json::Number)',
    'probe': 'any integer of i64 ∪ u64; admitted(n) is evaluated on f64(n) against the declared bounds and exactly against the format range',
    'unwind': 24,
}
C10_OUTSIDE = ['NaN / infinite bounds (not expressible in JSON)', 'integers outside i64 ∪ u64 (serde_json cannot carry them)',
               'non-integral and non-numeric defaults (rejected later by validate_value, not by this kernel)',
               'multipleOf other than 2', 'the link from the selected type name to the emitted tokens (rendering is outside the family\'s reach)']

PLAN = {
    'C10': {
        'engines': ['e1'],
        'technique': 'bounded symbolic execution + SAT (Kani/CBMC) of convert_integer over all finite f64 bounds',
        'level_text': 'bounded symbolic verification (Kani/CBMC) of the compiled convert_integer: all finite f64 values of the four bounds, an integer default and a probe integer per concrete format; the verdict is for those bounds only; the link from type name to rendered tokens is outside',
        'level_note': 'trusts Kani\'s MIR-to-goto translation, CBMC and CaDiCaL; integers compared with bounds in f64 as typify receives them; stubs listed in the evidence file',
        'units': c10_units,
        'timeout': {'quick': 1500, 'thorough': 3000},
        'functions': C10_FUNCS,
        'bounds': C10_BOUNDS,
        'outside': C10_OUTSIDE,
        'assumptions': ['bounds are finite f64', 'integers are compared with f64 bounds after conversion to f64 (what schemars/serde_json hand typify)',
                        'a recognised integer format is read as a range; where declared bounds reach beyond the format the default-rejection clause only demands the declared bounds',
                        'beyond i64::MAX the documented fallback type i64 is accepted as the widest choice',
                        'CBMC/Kani translation of the compiled MIR is trusted'],
        'explanation': ('Bounded symbolic verification (Kani 0.68 / CBMC 6.11, SAT) of the real convert_integer compiled from /repo: for every combination of the four '
                        'numeric bounds (all finite f64), multipleOf, an integer default and a probe integer, per concrete format, the solver shows that '
                        '(A1) every admitted integer is representable in the selected type (NonZero only when 0 is excluded; i64 fallback only beyond i64::MAX), '
                        '(A3) a recognised format with no contradicting keyword selects its documented type and unknown/absent formats select i64, '
                        '(A4a) an accepted default is a value of the selected type, (A4b) a default outside the admitted range is an error. '
                        'No state graph is explored, hence level "other"; every verdict is for the stated bounds only.'),
    },
}
PLAN['C06'] = dict(PLAN['C10'])


def width_patterns(kmax):
    import itertools
    out = []
    for k in range(0, kmax + 1):
        for seq in itertools.product([1, 2, 3, 4], repeat=k):
            out.append(''.join(map(str, seq)) or 'empty')
    return out


def c05_units(tier, rng):
    pats = width_patterns(3)
    if tier != 'thorough':
        # quick: the boundary witnesses (multi-byte vs count) always, plus a seed-chosen sample
        fixed = ['empty', '1', '2', '3', '4', '21', '13', '444']
        rest = [p for p in pats if p not in fixed]
        pats = fixed + rng.sample(rest, 6)
    return [('e1', 'c05_sv_' + p, f'string of {0 if p == "empty" else len(p)} Unicode scalar values with UTF-8 widths {p}: every code point of each width class; '
             'minLength, maxLength: each absent or any u32') for p in pats]


def c09_units(tier, rng):
    hs = [('c09_it_00', 'type keyword absent on both sides; probe type: any of the 7 JSON types'),
          ('c09_it_01', 'absent x single type (any of 7); probe type any'),
          ('c09_it_02', 'absent x list of two types (any of 7 each); probe type any'),
          ('c09_it_11', 'single x single (49 pairs); probe type any'),
          ('c09_it_12', 'single x list of two; probe type any'),
          ('c09_it_13', 'single x list of three; probe type any'),
          ('c09_array_len', 'minItems/maxItems of both operands each absent or any u32, uniqueItems of both in {absent,false,true}; probe length any u32'),
          ('c09_format', 'format of both operands from {absent, ip, ipv4, ipv6, int8, int32, uuid, date-time, x}')]
    return [('e1', h, d) for h, d in hs]


PLAN['C05'] = {
    'engines': ['e1'],
    'units': c05_units,
    'timeout': {'quick': 900, 'thorough': 1800},
    'technique': 'bounded symbolic execution + SAT (Kani/CBMC) of StringValidator over all code points of strings up to 3 scalar values',
    'level_text': 'bounded symbolic verification (Kani/CBMC) of the generation-time enum-value length filter (util::StringValidator) for every string of up to 3 Unicode scalar values (all code points, every UTF-8 width pattern) and all u32 min/max; the generated-code half of C05 is checked by engine E2 where built',
    'level_note': "trusts Kani's MIR-to-goto translation, CBMC and CaDiCaL; strings are built valid-by-construction (from_utf8_unchecked over bytes encoded from assumed-valid code points)",
    'functions': ['typify_impl::util::StringValidator::{new, is_valid} (typify-impl/src/util.rs) via verif_hooks::string_validator_is_valid'],
    'bounds': {'strings': 'all strings of <= 3 Unicode scalar values: 85 UTF-8 width patterns, one harness each, every code point of the width class symbolic (quick: 8 fixed boundary patterns + 6 seed-chosen; thorough: all 85)',
               'minLength/maxLength': 'each absent or any u32', 'unwind': 24},
    'outside': ['strings longer than 3 scalar values', 'pattern (regress is not executed symbolically)',
                'the generated-code enforcement (FromStr/TryFrom/Deserialize of constrained newtypes, enums, deny lists, required members, closed objects, tuple arity): engine E2',
                '"no public constructor or public field" (a syntactic scan of rendered tokens, not a solver question)'],
    'assumptions': ['code points are assumed inside their UTF-8 width class, surrogates excluded', 'CBMC/Kani translation of the compiled MIR is trusted'],
    'explanation': ('Bounded symbolic verification (Kani/CBMC, SAT) of the real StringValidator compiled from /repo: for every string of up to 3 Unicode scalar values '
                    '(concrete UTF-8 byte layout per harness, all code points symbolic) and every minLength/maxLength in Option<u32>, is_valid(s) equals '
                    'min <= number of scalar values <= max. This is the filter that decides which enum values survive a string enum with length constraints. '
                    'No state graph is explored, hence level "other".'),
}

PLAN['C09'] = {
    'engines': ['e1'],
    'units': c09_units,
    'timeout': {'quick': 900, 'thorough': 1800},
    'technique': 'bounded symbolic execution + SAT (Kani/CBMC) of the leaf merge kernels: intersection and commutativity',
    'level_text': 'bounded symbolic verification (Kani/CBMC) of three leaf kernels that allOf merging bottoms out in (merge_so_instance_type per operand layout, merge_so_array length/uniqueness bounds, merge_so_format): merged constraint admits a probe iff both operands do, in both argument orders, Err iff nothing is admitted. Everything else in merge.rs is outside the claim',
    'level_note': "trusts Kani's MIR-to-goto translation, CBMC and CaDiCaL; draft-07 reading of `type` where number admits integers",
    'functions': ['typify_impl::merge::merge_so_instance_type', 'typify_impl::merge::merge_so_array (items absent)', 'typify_impl::merge::merge_so_format',
                  'typify_impl::merge::choose_value', 'via verif_hooks::{merge_instance_type, merge_array, merge_format}'],
    'bounds': {'instance types': 'operand layouts absent / single / list of 2 / list of 3 in the 6 combinations that do not build a data-dependent heap set (list x list goes through BTreeSet and does not return under CBMC: measured, outside); every type value symbolic over the 7 JSON types; probe type symbolic',
               'arrays': 'minItems/maxItems each absent or any u32 on both sides, uniqueItems in {absent,false,true}, items/additionalItems/contains absent; probe length any u32',
               'formats': '9 x 9 pairs over {absent, ip, ipv4, ipv6, int8, int32, uuid, date-time, x} (symbolic index): order independence, idempotence, identity only',
               'unwind': 24},
    'outside': ['object/property merging, $ref resolution with `roughly`, enum-value merging, number/string validation merging (unimplemented!() in typify)',
                'distribution over anyOf/oneOf/not', 'permutations of >= 3 subschemas', 'list x list instance types (BTreeSet under CBMC: no verdict in 20 min)',
                'array items/additionalItems/contains', 'the link from the merged schema to the accept-vector of the compiled type'],
    'assumptions': ['draft-07 semantics: a value of JSON type integer is admitted by `type: number`', 'CBMC/Kani translation of the compiled MIR is trusted'],
    'explanation': ('Bounded symbolic verification (Kani/CBMC, SAT) of the real leaf merge functions compiled from /repo. For the `type` keyword: for all type values in each operand '
                    'layout and every probe type, merge(a,b) admits the probe iff a and b both admit it, merge(b,a) agrees, and Err is returned exactly when no type is admitted. '
                    'For arrays: the same with all u32 minItems/maxItems and a probe length, plus uniqueItems as a conjunction. For formats: commutativity, idempotence, identity. '
                    'No state graph is explored, hence level "other".'),
}

def width_patterns(kmax):
    import itertools
    out = []
    for k in range(0, kmax + 1):
        for seq in itertools.product([1, 2, 3, 4], repeat=k):
            out.append(''.join(map(str, seq)) or 'empty')
    return out


def c05_units(tier, rng):
    pats = width_patterns(3)
    if tier != 'thorough':
        # quick: the boundary witnesses (multi-byte vs count) always, plus a seed-chosen sample
        fixed = ['empty', '1', '2', '3', '4', '21', '13', '444']
        rest = [p for p in pats if p not in fixed]
        pats = fixed + rng.sample(rest, 6)
    return [('e1', 'c05_sv_' + p, f'string of {0 if p == "empty" else len(p)} Unicode scalar values with UTF-8 widths {p}: every code point of each width class; '
             'minLength, maxLength: each absent or any u32') for p in pats]


def c09_units(tier, rng):
    hs = [('c09_it_00', 'type keyword absent on both sides; probe type: any of the 7 JSON types'),
          ('c09_it_01', 'absent x single type (any of 7); probe type any'),
          ('c09_it_02', 'absent x list of two types (any of 7 each); probe type any'),
          ('c09_it_11', 'single x single (49 pairs); probe type any'),
          ('c09_it_12', 'single x list of two; probe type any'),
          ('c09_it_13', 'single x list of three; probe type any'),
          ('c09_array_len', 'minItems/maxItems of both operands each absent or any u32, uniqueItems of both in {absent,false,true}; probe length any u32'),
          ('c09_format', 'format of both operands from {absent, ip, ipv4, ipv6, int8, int32, uuid, date-time, x}')]
    return [('e1', h, d) for h, d in hs]


PLAN['C05'] = {
    'engines': ['e1'],
    'units': c05_units,
    'timeout': {'quick': 900, 'thorough': 1800},
    'technique': 'bounded symbolic execution + SAT (Kani/CBMC) of StringValidator over all code points of strings up to 3 scalar values',
    'level_text': 'bounded symbolic verification (Kani/CBMC) of the generation-time enum-value length filter (util::StringValidator) for every string of up to 3 Unicode scalar values (all code points, every UTF-8 width pattern) and all u32 min/max; the generated-code half of C05 is checked by engine E2 where built',
    'level_note': "trusts Kani's MIR-to-goto translation, CBMC and CaDiCaL; strings are built valid-by-construction (from_utf8_unchecked over bytes encoded from assumed-valid code points)",
    'functions': ['typify_impl::util::StringValidator::{new, is_valid} (typify-impl/src/util.rs) via verif_hooks::string_validator_is_valid'],
    'bounds': {'strings': 'all strings of <= 3 Unicode scalar values: 85 UTF-8 width patterns, one harness each, every code point of the width class symbolic (quick: 8 fixed boundary patterns + 6 seed-chosen; thorough: all 85)',
               'minLength/maxLength': 'each absent or any u32', 'unwind': 24},
    'outside': ['strings longer than 3 scalar values', 'pattern (regress is not executed symbolically)',
                'the generated-code enforcement (FromStr/TryFrom/Deserialize of constrained newtypes, enums, deny lists, required members, closed objects, tuple arity): engine E2',
                '"no public constructor or public field" (a syntactic scan of rendered tokens, not a solver question)'],
    'assumptions': ['code points are assumed inside their UTF-8 width class, surrogates excluded', 'CBMC/Kani translation of the compiled MIR is trusted'],
    'explanation': ('Bounded symbolic verification (Kani/CBMC, SAT) of the real StringValidator compiled from /repo: for every string of up to 3 Unicode scalar values '
                    '(concrete UTF-8 byte layout per harness, all code points symbolic) and every minLength/maxLength in Option<u32>, is_valid(s) equals '
                    'min <= number of scalar values <= max. This is the filter that decides which enum values survive a string enum with length constraints. '
                    'No state graph is explored, hence level "other".'),
}

PLAN['C09'] = {
    'engines': ['e1'],
    'units': c09_units,
    'timeout': {'quick': 900, 'thorough': 1800},
    'technique': 'bounded symbolic execution + SAT (Kani/CBMC) of the leaf merge kernels: intersection and commutativity',
    'level_text': 'bounded symbolic verification (Kani/CBMC) of three leaf kernels that allOf merging bottoms out in (merge_so_instance_type per operand layout, merge_so_array length/uniqueness bounds, merge_so_format): merged constraint admits a probe iff both operands do, in both argument orders, Err iff nothing is admitted. Everything else in merge.rs is outside the claim',
    'level_note': "trusts Kani's MIR-to-goto translation, CBMC and CaDiCaL; draft-07 reading of `type` where number admits integers",
    'functions': ['typify_impl::merge::merge_so_instance_type', 'typify_impl::merge::merge_so_array (items absent)', 'typify_impl::merge::merge_so_format',
                  'typify_impl::merge::choose_value', 'via verif_hooks::{merge_instance_type, merge_array, merge_format}'],
    'bounds': {'instance types': 'operand layouts absent / single / list of 2 / list of 3 in the 6 combinations that do not build a data-dependent heap set (list x list goes through BTreeSet and does not return under CBMC: measured, outside); every type value symbolic over the 7 JSON types; probe type symbolic',
               'arrays': 'minItems/maxItems each absent or any u32 on both sides, uniqueItems in {absent,false,true}, items/additionalItems/contains absent; probe length any u32',
               'formats': '9 x 9 pairs over {absent, ip, ipv4, ipv6, int8, int32, uuid, date-time, x} (symbolic index): order independence, idempotence, identity only',
               'unwind': 24},
    'outside': ['object/property merging, $ref resolution with `roughly`, enum-value merging, number/string validation merging (unimplemented!() in typify)',
                'distribution over anyOf/oneOf/not', 'permutations of >= 3 subschemas', 'list x list instance types (BTreeSet under CBMC: no verdict in 20 min)',
                'array items/additionalItems/contains', 'the link from the merged schema to the accept-vector of the compiled type'],
    'assumptions': ['draft-07 semantics: a value of JSON type integer is admitted by `type: number`', 'CBMC/Kani translation of the compiled MIR is trusted'],
    'explanation': ('Bounded symbolic verification (Kani/CBMC, SAT) of the real leaf merge functions compiled from /repo. For the `type` keyword: for all type values in each operand '
                    'layout and every probe type, merge(a,b) admits the probe iff a and b both admit it, merge(b,a) agrees, and Err is returned exactly when no type is admitted. '
                    'For arrays: the same with all u32 minItems/maxItems and a probe length, plus uniqueItems as a conjunction. For formats: commutativity, idempotence, identity. '
                    'No state graph is explored, hence level "other".'),
}

# Claimed in DESIGN.md but not built yet: listed as not applicable until their
# check exists (MANIFEST must never claim what does not run).
NOT_YET = {
    'C02': 'planned (engine E2, generated-code harnesses): not built yet in this snapshot',
    'C03': 'planned (engine E2): not built yet in this snapshot',
    'C04': 'planned second wave (engine E2): not built yet in this snapshot',
    'C11': 'planned (engine E2): not built yet in this snapshot',
    'C14': 'planned second wave (engine E2): not built yet in this snapshot',
    'C18': 'planned (engine E2): not built yet in this snapshot',
}


# ------------------------------------------------------------------ engine E2 properties

E2_TRUST = ("trusts Kani's MIR-to-goto translation, CBMC and CaDiCaL; serde_json is replaced by an in-memory token document with serde Deserializer/Serializer that "
            "mirror serde_json::Value's data-model mapping (kani/e2/src/tok.rs; replays cross-check against serde_json::from_str); the oracle is our own draft-07 reading "
            "of the corpus schemas (lib/e2gen.py, kani/e2/src/sch.rs), independent of typify")
E2_STUBS = ['serde_json text/Value layer replaced by the token document (kani/e2/src/tok.rs) with a unit error type (messages dropped)',
            'alloc::fmt::format -> empty string (error-message formatting is not the subject)',
            'serde access protocol (no element after the end, no value without key) stated as an assumption to prune phantom loop iterations']
E2_ASSUME = ['strings are valid UTF-8 by construction: concrete byte layout per harness, symbolic code points inside their width class (surrogates excluded)',
             'presence of object members, array lengths and the choice of string-enum members are concrete per harness (enumerated by the generator); everything else is symbolic',
             'the schema dimension is the finite corpus of lib/corpus.py (listed in coverage.corpus)',
             'CBMC/Kani translation of the compiled MIR is trusted']
E2_BOUNDS = {
    'schemas': 'the corpus of lib/corpus.py: externally tagged enums (unit, closed/open struct and newtype variants), string enums (incl. members whose identifier differs from the raw value), constrained strings (6 min/max combinations), string alias, string/integer deny lists, integer enums, flat structs (required/optional/defaulted/nullable/renamed members, open and closed), integer formats and bounds as members, nested structs, tuples, arrays, nullable objects',
    'instances': 'per harness: concrete presence mask / array length / string width pattern; symbolic: every integer (i64 ∪ u64), boolean, null-vs-value choice of scalar nullables, every code point of every string',
    'strings': 'free strings of <= 3 Unicode scalar values per leaf (quick: selected width patterns; thorough: all 85 for enums, all patterns up to maxLength+1 for constrained strings)',
    'documents': '<= 24 tokens, <= 64 string bytes, strings <= 12 bytes',
    'unwind': 26,
}
E2_OUTSIDE = ['every schema not in the corpus', 'maps/sets (HashMap/HashSet do not return under CBMC), flattened members, untagged/internally/adjacently tagged enums (serde Content buffering), $ref recursion',
              'pattern, string formats (uuid, date-time, ip: third-party parsers)', 'JSON text level (number lexing, escapes): serde_json is not executed symbolically',
              'rendered-token obligations (derive lists, visibility, names): not a solver question']


def corpus_list():
    import corpus
    return [f"{c['id']} ({c['kind']})" for c in corpus.CASES]


def mk_e2(pid, units, technique, level_text, functions, explanation, extra_outside=(), engines=('e2',), timeout=None):
    return {
        'engines': list(engines),
        'units': units,
        'timeout': timeout or {'quick': 900, 'thorough': 2400},
        'technique': technique,
        'level_text': level_text,
        'level_note': E2_TRUST,
        'functions': functions,
        'bounds': E2_BOUNDS,
        'outside': E2_OUTSIDE + list(extra_outside),
        'assumptions': E2_ASSUME,
        'stubs': E2_STUBS,
        'explanation': explanation + ' The code under test is regenerated by the real typify (genner, /repo working tree) on every run. For all instances is closed by the solver; for all schemas is the stated finite corpus. No state graph is explored, hence level "other".',
    }


GEN_FUNCS = ['typify_impl::TypeSpace::{add_ref_types, add_type, to_stream} (run natively by /verif/genner on every check)',
             'the generated code: Deserialize/Serialize (serde_derive expansion of the emitted attributes), FromStr, TryFrom, Display, builder module, defaults module']

PLAN['C02'] = mk_e2(
    'C02', lambda tier, rng: e2_select('C02', tier, rng, r'_inst_\w+_(p|p2)$|_inst_events(_closed)?_v\d$|_inst_events_v3x0$', 14, {'inst'}),
    'bounded symbolic execution + SAT (Kani/CBMC) of generated Deserialize impls over schema-shaped instances with symbolic leaves',
    'bounded symbolic verification (Kani/CBMC) of the code typify generates for a stated schema corpus: every instance of the harness\'s concrete shape (all integers, booleans, strings up to the width pattern) that our draft-07 evaluator classifies valid deserializes into the generated type',
    GEN_FUNCS,
    'Bounded symbolic verification of generated deserializers: for each corpus schema and each enumerated instance shape the solver shows valid(S, v) => T_S::deserialize(v) is Ok for all leaf values.')
PLAN['C03'] = mk_e2(
    'C03', lambda tier, rng: e2_select('C03', tier, rng, r'_rt_(pt|defaults|withenum|triple|pair|nullable_obj|ints|renamed|nulldef|grid_bool|grid_int|grid_str|grid_str2|opttuple|optpair)_p$|_rt_(opttuple|optpair)_p0$|_rt_(pt|defaults|renamed|nulldef|grid_str2)_p0$|_rt_(defaults|renamed|grid_str|withenum)_pe$|_rt_events_v(0|2|3|4)$|_in_|_id_\w+$', 5),
    'bounded symbolic execution + SAT (Kani/CBMC) of generated Deserialize -> Serialize -> Deserialize over symbolic valid instances',
    'bounded symbolic verification (Kani/CBMC) of the round trip through generated code for a stated corpus: declared members are kept with equal values, only null/empty optional members are dropped, only schema defaults are added, and serializing the defaults-filled instance again reproduces the same document',
    GEN_FUNCS,
    'Bounded symbolic verification of the round trip: for each corpus schema and shape, for all valid leaf values: w = ser(de(v)) keeps every declared member with an equal value, adds only schema defaults, and ser(de(v + defaults)) == w.',
    extra_outside=['idempotence is checked on v + defaults (concrete layout) instead of re-reading w, whose member presence is symbolic; that omitted members may be omitted is covered by the instance harnesses with those members absent'])
PLAN['C11'] = mk_e2(
    'C11', lambda tier, rng: e2_select('C11', tier, rng, r'_se_(colors|odd)_(e|1|2|21)$|_sn_(colors|odd)_\d_(x|t)$|_sp_alias_(e|2|21)$|_sc_len_2_3_(1|21|22|222)$|_sc_len_0_1_(1|11|21)$|_sc_len_n_2_(111|21)$', 14),
    'bounded symbolic execution + SAT (Kani/CBMC) of generated FromStr/TryFrom/Display vs Deserialize/Serialize over all code points',
    'bounded symbolic verification (Kani/CBMC) of the string conversions typify generates (string enums, constrained and plain string newtypes): for every string of the harness\'s width pattern parse, the three TryFrom flavours and Deserialize agree, accepted values serialize back to the same string, Display prints what Serialize writes',
    GEN_FUNCS,
    'Bounded symbolic verification of generated string conversions: for all strings of up to 3 Unicode scalar values (all code points) and every member with one scalar substituted/appended/removed: s.parse().is_ok() == deserialize(s).is_ok(), TryFrom agrees, values equal, to_string() == serialized string.')
PLAN['C14'] = mk_e2(
    'C14', lambda tier, rng: e2_select('C14', tier, rng, r'_eq_(pt|withenum|nullable_obj|renamed|nulldef)_\w+_p$', 4),
    'bounded symbolic execution + SAT (Kani/CBMC): two-program equivalence of the types generated under two settings, on one symbolic instance',
    'bounded symbolic verification (Kani/CBMC) of the behavioural sentence of C14 only: for the corpus structs/tuples, the type generated under default settings and under {builder, extra derive, BTreeMap map type, a patch renaming another definition} accept the same instances and write the same JSON; the syntactic obligations (names, derive lists, use sites) are facts about rendered tokens and are outside',
    GEN_FUNCS + ['typify_impl::TypeSpaceSettings::{with_struct_builder, with_derive, with_map_type, with_patch}'],
    'Bounded symbolic two-program equivalence: the same symbolic instance is fed to the type generated under default settings and under another setting; accept/reject and the serialized document must agree.',
    extra_outside=['replace / convert settings (the affected type changes by design)', 'all syntactic obligations of C14'])
PLAN['C04'] = mk_e2(
    'C04', lambda tier, rng: e2_select('C04', tier, rng, r'_wc_\w+_(root|defs)_p$', 4),
    'bounded symbolic execution + SAT (Kani/CBMC): origin type (serde derive) and the type generated from its schemars schema exchange one symbolic document, both ingestion routes',
    'bounded symbolic verification (Kani/CBMC) of wire compatibility for a fixed list of flat origin types (corpus/origin_types.rs: structs with integer/bool/String/Option members, rename and rename_all, serde default, deny_unknown_fields, tuple struct, newtype, unit-variant enum, Box, NonZero): for every value x of T obtained from a schema-shaped symbolic document, the type generated by typify from T\'s schemars schema - through the root route and through the definitions route - accepts ser(x) and writes the same document back (absent == null for Option members), which T reads as x. Data-carrying enum variants under the four tagging modes, nested origin structs, containers and skip_serializing_if on the origin side are outside (measured)',
    GEN_FUNCS + ['schemars 0.8.22 schema_for! on the origin types (run natively by genner)', 'typify_impl::TypeSpace::add_root_schema (root route)'],
    'Bounded symbolic exchange between two programs: x = T::deserialize(v) for a symbolic schema-shaped v; wo = T::serialize(x); T\'::deserialize(wo) must be Ok; T\'::serialize of it must equal wo slot by slot.',
    extra_outside=['the quantifier over programs is a fixed list of 9 origin types, not generated universes', 'data-carrying enum variants (all four tagging modes), nested origin structs, Vec/map members, skip_serializing_if on the origin side'])
PLAN['C18'] = mk_e2(
    'C18', lambda tier, rng: e2_select('C18', tier, rng, r'_bd_\w+_(p|p0|n0)$|_bd_(pt_b|defaults_b|objdefault_b)_(m0|m1|m2)$', 3),
    'bounded symbolic execution + SAT (Kani/CBMC) of the generated builder module: setter subsets x symbolic values',
    'bounded symbolic verification (Kani/CBMC) of the generated builder for the corpus structs: for each enumerated subset of setters called and all values, try_into succeeds iff every property without default is set and every supplied value converts; the built value equals deserializing an object with the same members; struct -> builder -> struct is the identity. The text of the error message is outside (formatting is stubbed)',
    GEN_FUNCS,
    'Bounded symbolic verification of generated builders: setters (names and field types read from the generated code itself) are called for an enumerated subset of members with symbolic values, integers through the wider i64/u64 so that conversion failure is reachable.',
    extra_outside=['"error naming the property": message text is built by format!, which is stubbed'])


def c05_all(tier, rng):
    u = c05_units(tier, rng)
    u += e2_select('C05', tier, rng, r'_sc_len_2_3_(e|1|21|22|222|2222)$|_sc_len_0_1_(11|21)$|_sc_len_n_2_(111)$|_sd_notab_(1|m0)$|_in_|_id_\w+$|_inst_pt_closed_(x0|p)$|_inst_(pair|triple)_a0[pm]$|_se_colors_(1|21)$|_sn_colors_1_(x|s0)$|_inst_events_v2(x0|t1)$|_inst_events_closed_v3(x0|t2)$', 14)
    return u


def c06_all(tier, rng):
    u = c10_units(tier, rng)
    u = [x for x in u if not x[1].startswith('c10_fmt')]
    if tier != 'thorough':
        u = [x for x in u if not x[1].startswith('c10_fmt')]
        u = u[:1] + u[2:4]       # quick: no-format + two formats (the full set is C10's quick tier)
    u += e2_select('C06', tier, rng, r'_rt_(defaults|nulldef|renamed|grid_int)_(p0|p)$|_bd_(defaults_b|nulldef_b|grid_str_b)_(p0|m0)$', 6)
    return u


PLAN['C05'] = dict(PLAN['C05'])
PLAN['C05'].update({
    'engines': ['e1', 'e2'],
    'units': c05_all,
    'level_text': PLAN['C05']['level_text'].replace('the generated-code half of C05 is checked by engine E2 where built',
                                                  'and of the generated FromStr/TryFrom/Deserialize of the corpus types (engine E2): accepted iff the represented constraint holds'),
    'functions': PLAN['C05']['functions'] + GEN_FUNCS,
    'stubs': E2_STUBS,
    'bounds': dict(PLAN['C05']['bounds'], e2=E2_BOUNDS),
    'outside': ['strings longer than 3 scalar values (E1) / the width patterns listed per harness (E2)', 'pattern (regress is not executed symbolically)',
                'tag values of tagged unions (tagged-enum deserialisation is outside the corpus)',
                '"no public constructor or public field" (a syntactic scan of rendered tokens, not a solver question)'] + E2_OUTSIDE,
    'assumptions': PLAN['C05']['assumptions'] + E2_ASSUME,
    'explanation': PLAN['C05']['explanation'].replace(' No state graph is explored, hence level "other".', '') +
    ' Engine E2 adds the generated-code half: for string enums, constrained strings, string/integer deny lists, integer enums, required members, closed objects, tuple arity and scalar JSON types of the corpus, '
    'Deserialize/TryFrom/FromStr accept exactly what the constraint admits (single-constraint violations are rejected). No state graph is explored, hence level "other".',
})
PLAN['C06'] = dict(PLAN['C06'])
PLAN['C06'].update({
    'engines': ['e1', 'e2'],
    'units': c06_all,
    'technique': 'bounded symbolic execution + SAT (Kani/CBMC): integer-default range kernel (all values) and realised defaults of generated code',
    'level_text': 'bounded symbolic verification (Kani/CBMC): (E1) an accepted integer default is a value of the selected type and an out-of-range default is an error, for all f64 bounds and all i64/u64 defaults; (E2) for corpus structs with defaulted members, deserializing an object without the member and the builder both yield the schema default, independent of all other (symbolic) members. Non-integer default validation/rendering is outside',
    'functions': C10_FUNCS + GEN_FUNCS,
    'stubs': E2_STUBS,
    'outside': C10_OUTSIDE + ['validation/rendering of non-integer defaults (defaults.rs/value.rs walk serde_json::Value and render tokens: out of reach)', 'Default impls of named types'] + E2_OUTSIDE,
    'assumptions': PLAN['C10']['assumptions'] + E2_ASSUME,
})
