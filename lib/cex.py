#!/usr/bin/env python3
"""Counterexample extraction for one failed check of one Kani harness.

Kani's own `--concrete-playback` re-runs CBMC with traces for *all* properties,
which does not finish on our harnesses (measured: 200 s -> >15 min). Instead we
run CBMC ourselves on the goto binary Kani left in the target dir, restricted to
the one failed property (`--property <id> --trace`), and read the values
returned by `kani::any_raw_internal` from the trace, in execution order: that is
exactly the list of draws the native replay binary consumes.
"""
import glob
import json
import os
import subprocess
import sys
import time

CBMC_FLAGS = ['--no-malloc-may-fail', '--no-undefined-shift-check', '--no-signed-overflow-check',
              '--nan-check', '--no-self-loops-to-assumptions', '--no-pointer-primitive-check',
              '--object-bits', '16', '--sat-solver', 'cadical', '--slice-formula']


def find_goto(target_dir, crate, harness):
    pat = os.path.join(target_dir, 'kani', '*', 'debug', 'build', crate, '*', 'out', f'*{len(harness)}{harness}.out')
    c = [p for p in glob.glob(pat) if not p.endswith('.symtab.out')]
    if not c:
        return None
    return max(c, key=os.path.getmtime)


def property_ids(goto, needle):
    out = subprocess.run(['cbmc', '--show-properties', '--json-ui', goto], capture_output=True, text=True).stdout
    ids = []
    try:
        doc = json.loads(out)
    except Exception:  # noqa
        return ids
    for e in doc:
        for p in e.get('properties', []) if isinstance(e, dict) else []:
            if needle in p.get('description', ''):
                ids.append(p['name'])
    return ids


def extract(goto, prop, unwind, timeout):
    t0 = time.time()
    # no --slice-formula here: slicing drops the assignments of draws that do not
    # influence the failed property from the trace, and the replay needs every draw
    flags = [f for f in CBMC_FLAGS if f != '--slice-formula']
    cmd = ['cbmc'] + flags + ['--unwind', str(unwind), goto, '--property', prop, '--trace', '--json-ui']
    try:
        r = subprocess.run(cmd, capture_output=True, text=True, timeout=timeout)
    except subprocess.TimeoutExpired:
        return None, 'timeout', time.time() - t0
    try:
        d = json.loads(r.stdout)
    except Exception as e:  # noqa
        return None, f'unparsable cbmc output ({e})', time.time() - t0
    for e in d:
        if isinstance(e, dict) and 'result' in e:
            for res in e['result']:
                if res.get('property') != prop:
                    continue
                if res.get('status') != 'FAILURE':
                    return None, f"status {res.get('status')}", time.time() - t0
                draws = []
                for st in res.get('trace', []):
                    lhs = st.get('lhs', '')
                    if st.get('stepType') == 'assignment' and lhs.startswith('goto_symex$$return_value') and 'any_raw' in lhs:
                        b = st['value'].get('binary')
                        if b is None:
                            continue
                        v = int(b, 2)
                        draws.append([(v >> (8 * i)) & 255 for i in range(len(b) // 8)])
                return draws, 'ok', time.time() - t0
    return None, 'property not in result', time.time() - t0


if __name__ == '__main__':
    target_dir, crate, harness, needle, unwind = sys.argv[1:6]
    goto = find_goto(target_dir, crate, harness)
    print('goto:', goto, file=sys.stderr)
    for pid in property_ids(goto, needle):
        draws, why, secs = extract(goto, pid, unwind, 1800)
        print(json.dumps({'property': pid, 'draws': draws, 'status': why, 'secs': round(secs, 1)}))
