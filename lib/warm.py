#!/usr/bin/env python3
"""Warm builds (best effort; a failure here is reported by the checks themselves)."""
import os
import subprocess
import sys

sys.path.insert(0, os.path.dirname(os.path.abspath(__file__)))
import kani_run  # noqa: E402
import plan  # noqa: E402

env = dict(os.environ, CARGO_NET_OFFLINE='true')
env.pop('RUSTUP_TOOLCHAIN', None)
for name, e in plan.ENGINES.items():
    if not os.path.isdir(e['dir']):
        continue
    if e.get('prepare'):
        err = e['prepare']('quick')
        if err:
            print(f'warm {name}: prepare: {err}')
            continue
    tdir = os.path.join(kani_run.CACHE, f'target-{name}')
    # one small harness is enough to build every dependency under Kani's
    # toolchain; code generation for *all* harnesses of the generated crate takes
    # more than an hour and is not needed (each check compiles what it runs)
    one = e.get('harness_prefix', '') + e.get('warm_harness', '')
    r = subprocess.run(['cargo', 'kani', '-Z', 'stubbing', '-Z', 'unstable-options', '--only-codegen', '--exact', '--harness', one, '--target-dir', tdir],
                       cwd=e['dir'], env=env, capture_output=True, text=True)
    print(f'warm {name}: kani codegen rc={r.returncode}')
    if r.returncode != 0:
        print(r.stderr[-2000:])
    nenv = dict(env, RUSTUP_TOOLCHAIN=kani_run.KANI_TOOLCHAIN)
    for prof in ([], ['--release']):
        r = subprocess.run(['cargo', 'build', '--target-dir', os.path.join(kani_run.CACHE, f'target-{name}-native')] + prof,
                           cwd=e['dir'], env=nenv, capture_output=True, text=True)
        print(f'warm {name}: native {prof or "dev"} rc={r.returncode}')
        if r.returncode != 0:
            print(r.stderr[-2000:])
