#!/usr/bin/env python3
"""Debug aid: run cbmc directly on a harness's goto binary for a while and
report which loops unwind how far (a loop hitting the bound means CBMC lost a
constant)."""
import sys, re, subprocess
from collections import Counter
sys.path.insert(0, '/verif/lib')
import cex
engine, crate, harness, unwind, secs = sys.argv[1:6]
g = cex.find_goto(f'/verif/.cache/target-{engine}', crate, harness)
cmd = ['timeout', secs, 'cbmc'] + cex.CBMC_FLAGS + ['--unwind', unwind, g, '--verbosity', '9']
r = subprocess.run(cmd, capture_output=True, text=True)
lines = r.stdout.splitlines()
c = Counter(); cnt = Counter()
for l in lines:
    m = re.match(r'Unwinding (?:loop|recursion) (\S+) iteration (\d+)(?: file (\S+) line (\d+))?', l)
    if m:
        k = m.group(1)[-70:] + ' ' + (m.group(3) or '')[-30:] + ':' + (m.group(4) or '')
        c[k] = max(c[k], int(m.group(2))); cnt[k] += 1
for k, v in sorted(c.items(), key=lambda kv: -cnt[kv[0]])[:20]:
    print(v, cnt[k], k)
print('\n'.join(l for l in lines if 'Runtime' in l or 'size of' in l or 'variables' in l)[:800])
