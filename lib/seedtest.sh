#!/bin/bash
# seedtest.sh <patch.diff> <out-log> <check-id>[:tier] ...
# Applies a seeded change to /repo, runs the given checks, reverts /repo.
patch=$1; log=$2; shift 2
cd /repo || exit 2
git diff --quiet || { echo "/repo is dirty" >&2; exit 2; }
git apply "$patch" || { echo "patch does not apply" >&2; exit 2; }
: > "$log"
for c in "$@"; do
  id=${c%%:*}; tier=${c#*:}; [ "$tier" = "$c" ] && tier=quick
  echo "=== $id $tier" >> "$log"
  (cd /verif && ./bin/check $id --tier $tier >> "$log" 2>&1; echo "exit=$?" >> "$log")
done
git -C /repo checkout -- .
