#!/bin/bash
# seedtest.sh <patch.diff> <out-log> <check-id>[:tier] ...
# Applies a seeded change to /repo, runs the given checks, reverts /repo.
# The evidence files of the checks are put back afterwards (they describe the
# unchanged tree) and the generated harness crate is regenerated from the
# reverted tree.
patch=$1; log=$2; shift 2
cd /repo || exit 2
git diff --quiet || { echo "/repo is dirty" >&2; exit 2; }
git apply "$patch" || { echo "patch does not apply" >&2; exit 2; }
: > "$log"
keep=$(mktemp -d /verif/.cache/seedtest.XXXXXX)
for c in "$@"; do
  id=${c%%:*}; tier=${c#*:}; [ "$tier" = "$c" ] && tier=quick
  [ -f /verif/evidence/$id.json ] && cp /verif/evidence/$id.json "$keep/$id.json"
  echo "=== $id $tier" >> "$log"
  (cd /verif && ./bin/check $id --tier $tier >> "$log" 2>&1; echo "exit=$?" >> "$log")
  [ -f /verif/evidence/$id.json ] && cp /verif/evidence/$id.json "$log.$id.evidence.json"
  [ -f "$keep/$id.json" ] && cp "$keep/$id.json" /verif/evidence/$id.json
done
rm -rf "$keep"
git -C /repo checkout -- .
(cd /verif && python3 lib/corpus.py > /dev/null 2>&1)
