"""Emitter of straight-line Rust harness code for structural schemas (objects,
tuples, arrays, nullables) of the E2 corpus.

The schema tree is walked here, in Python, at generation time; what reaches
Kani is a flat sequence of token emitters with symbolic leaves and the
leaf-level clauses of our own draft-07 reading at statically known token
positions (kani/e2/src/sch.rs). The oracle is independent of typify: it is
derived from the JSON schema only.
"""
import json
import math

INT_FORMATS = {
    'int8': (-2**7, 2**7 - 1), 'uint8': (0, 2**8 - 1), 'int16': (-2**15, 2**15 - 1), 'uint16': (0, 2**16 - 1),
    'int': (-2**31, 2**31 - 1), 'int32': (-2**31, 2**31 - 1), 'uint': (0, 2**32 - 1), 'uint32': (0, 2**32 - 1),
    'int64': (-2**63, 2**63 - 1), 'uint64': (0, 2**64 - 1),
}


class Unsupported(Exception):
    pass


def rstr(s):
    return json.dumps(s, ensure_ascii=False)


def rstrs(xs):
    return '&[' + ', '.join(rstr(x) for x in xs) + ']'


def tree(schema, defs):
    """JSON schema (our fragment) -> tree of dicts. Integer formats are ranges."""
    if schema is True or schema == {}:
        raise Unsupported('true schema')
    if '$ref' in schema:
        return tree(defs[schema['$ref'].split('/')[-1]], defs)
    if 'allOf' in schema and len(schema['allOf']) == 1 and not any(k in schema for k in ('type', 'properties', 'enum')):
        # schemars wraps a $ref that carries metadata in a one-element allOf
        return tree(schema['allOf'][0], defs)
    if 'oneOf' in schema and all(_ext_variant(a) is not None for a in schema['oneOf']) and any(_ext_variant(a)[0] == 'data' for a in schema['oneOf']):
        units, variants = [], []
        for a in schema['oneOf']:
            kind, payload = _ext_variant(a)
            if kind == 'units':
                units += payload
            else:
                name, content = payload
                variants.append((name, tree(content, defs)))
        return {'k': 'extenum', 'units': units, 'variants': variants}
    for k in ('oneOf', 'anyOf'):
        if k in schema:
            alts = schema[k]
            nulls = [a for a in alts if a.get('type') == 'null']
            rest = [a for a in alts if a.get('type') != 'null']
            if len(alts) == 2 and len(nulls) == 1:
                return {'k': 'nullable', 'inner': tree(rest[0], defs)}
            raise Unsupported(k)
    t = schema.get('type')
    if isinstance(t, list):
        if len(t) == 2 and 'null' in t:
            s2 = dict(schema)
            s2['type'] = [x for x in t if x != 'null'][0]
            s2.pop('default', None)
            return {'k': 'nullable', 'inner': tree(s2, defs)}
        raise Unsupported('type list')
    if t == 'null':
        return {'k': 'null'}
    if t == 'boolean':
        return {'k': 'bool'}
    if t == 'integer':
        if 'enum' in schema:
            return {'k': 'intenum', 'values': [int(x) for x in schema['enum']], 'allow': True}
        if 'not' in schema:
            n = schema['not']
            vals = n['enum'] if 'enum' in n else [n['const']]
            return {'k': 'intenum', 'values': [int(x) for x in vals], 'allow': False}
        # without a recognised format typify's documented choice is i64 (or, for a
        # lone lower bound of 0/1, u64): outside i64 nothing is claimed here (C10's business)
        lo, hi = -2**63, 2**63 - 1
        if schema.get('format') in INT_FORMATS:
            lo, hi = INT_FORMATS[schema['format']]
        if 'minimum' in schema:
            lo = max(lo, math.ceil(schema['minimum']))
        if 'exclusiveMinimum' in schema:
            lo = max(lo, math.floor(schema['exclusiveMinimum']) + 1)
        if 'maximum' in schema:
            hi = min(hi, math.floor(schema['maximum']))
        if 'exclusiveMaximum' in schema:
            hi = min(hi, math.ceil(schema['exclusiveMaximum']) - 1)
        return {'k': 'int', 'lo': lo, 'hi': hi}
    if t == 'string':
        if 'enum' in schema:
            return {'k': 'strenum', 'values': list(schema['enum']), 'allow': True}
        if 'not' in schema:
            return {'k': 'strenum', 'values': list(schema['not']['enum']), 'allow': False}
        if 'pattern' in schema or 'format' in schema:
            raise Unsupported('pattern/format')
        return {'k': 'str', 'min': schema.get('minLength'), 'max': schema.get('maxLength')}
    if t == 'array':
        items = schema.get('items')
        if isinstance(items, list):
            if schema.get('minItems') != len(items) or schema.get('maxItems') != len(items):
                raise Unsupported('open tuple')
            return {'k': 'tuple', 'items': [tree(i, defs) for i in items]}
        if isinstance(items, dict) and not any(k in schema for k in ('minItems', 'maxItems', 'uniqueItems')):
            return {'k': 'array', 'item': tree(items, defs)}
        raise Unsupported('array form')
    if t == 'object':
        props = schema.get('properties', {})
        req = set(schema.get('required', []))
        ap = schema.get('additionalProperties', True)
        if ap not in (True, False):
            raise Unsupported('additionalProperties schema')
        ps = []
        for name in sorted(props):
            p = props[name]
            ps.append({'name': name, 'sch': tree(p, defs), 'required': name in req,
                       'has_default': isinstance(p, dict) and 'default' in p,
                       'default': p.get('default') if isinstance(p, dict) else None})
        return {'k': 'obj', 'props': ps, 'closed': ap is False}
    raise Unsupported(f'type {t!r}')


def _ext_variant(a):
    """('units', [names]) for a string enum alternative, ('data', (name, content schema)) for a
    closed single-member object - the two alternative shapes of an externally tagged enum."""
    if not isinstance(a, dict):
        return None
    if a.get('type') == 'string' and 'enum' in a and len(a) <= 3:
        return ('units', list(a['enum']))
    props = a.get('properties')
    if a.get('type') == 'object' and isinstance(props, dict) and len(props) == 1 and a.get('required') == list(props) \
            and a.get('additionalProperties') is False:
        name = next(iter(props))
        return ('data', (name, props[name]))
    return None


def is_leaf(n):
    return n['k'] in ('null', 'bool', 'int', 'str', 'strenum', 'intenum') or (n['k'] == 'nullable' and is_leaf(n['inner']))


def counts(n, acc=None):
    """leaves / objects / tuples / string enums (allow lists) / members, in build order"""
    acc = acc if acc is not None else {'leaf': 0, 'obj': 0, 'tuple': 0, 'strenum': 0, 'member': 0}
    if is_leaf(n):
        acc['leaf'] += 1
        m = n['inner'] if n['k'] == 'nullable' else n
        if m['k'] == 'strenum' and m['allow']:
            acc['strenum'] += 1
        return acc
    k = n['k']
    if k == 'nullable':
        counts(n['inner'], acc)
    elif k == 'tuple':
        acc['tuple'] += 1
        for i in n['items']:
            counts(i, acc)
    elif k == 'array':
        counts(n['item'], acc)     # counted once; instances repeat it array_len times
    elif k == 'obj':
        acc['obj'] += 1
        for p in n['props']:
            acc['member'] += 1
            counts(p['sch'], acc)
    elif k == 'extenum':
        pass    # numbering of leaves/objects inside a variant is per chosen variant (see variant_counts)
    return acc


class Plan:
    def __init__(self, widths=(1,), array_len=1, compound_null=False, present=None, mutation=None, name='p', descr='', pick=0, variant=0):
        self.widths = tuple(widths)
        self.array_len = array_len
        self.compound_null = compound_null
        self.present = present      # None = all present; else set of member numbers (build order) that are present
        self.mutation = mutation    # None | ('wrong', k, kind) | ('extra', k) | ('arity', k, d) | ('freeenum', k)
        self.name = name
        self.descr = descr
        self.variant = variant      # which alternative of an externally tagged enum the instance takes (units first, then data variants)
        self.pick = pick            # which member string-enum leaves take (rotated per leaf): concrete, because a symbolic choice among strings of different lengths makes lengths symbolic


def variant_counts(n, v):
    """counts() of the content of data variant v of an extenum root"""
    return counts(n['variants'][v][1])


def span(n, plan):
    k = n['k']
    if k == 'tuple':
        return 1 + sum(span(i, plan) for i in n['items'])
    if k == 'array':
        return 1 + plan.array_len * span(n['item'], plan)
    if k == 'obj':
        return 1 + sum(1 + span(p['sch'], plan) for p in n['props'])
    if k == 'nullable' and not is_leaf(n):
        return 1 if plan.compound_null else span(n['inner'], plan)
    return 1


class Emitter:
    """Simulates the token layout while emitting the Rust that builds it."""

    def __init__(self, plan, pre=None):
        self.plan = plan
        # spans are taken from a dry run (pre) so that mutations (extra member,
        # tuple arity) are reflected in the enclosing slots
        self.pre = pre
        self.spans = []
        self.span_i = 0
        self.lines = []
        self.pos = 0
        self.leaf_no = 0
        self.obj_no = 0
        self.tuple_no = 0
        self.enum_no = 0
        self.member_no = 0
        self.verdict = []      # Rust expressions of type Verdict (over `doc`)
        self.const_bad = []    # statically known enforced violations (strings for the report)
        self.const_soft = []   # statically known schema violations of a kind typify does not represent (no claim)
        self.members = []      # (path, name, pos_of_value, present, node, prop) of object members, for round-trip checks
        self.leaves = []       # (pos, node, live) of leaves
        self.tags = []         # (key position, variant name) of externally tagged data variants

    def w(self, line):
        self.lines.append('    ' + line)

    def span_begin(self):
        """reserve a span slot; returns (index, value to emit now)"""
        i = self.span_i
        self.span_i += 1
        if self.pre is None:
            self.spans.append(None)
            return i, 0
        return i, self.pre[i]

    def span_end(self, i, start):
        if self.pre is None:
            self.spans[i] = self.pos - start

    def widths(self):
        return '&[' + ', '.join(map(str, self.plan.widths)) + ']'

    # ---- build + oracle for one value; `live` = the value is part of the instance
    def value(self, n, live=True, path='', optional_member=False):
        plan = self.plan
        if is_leaf(n):
            k = self.leaf_no
            self.leaf_no += 1
            inner = n['inner'] if n['k'] == 'nullable' else n
            pos = self.pos
            self.pos += 1
            enum_k = None
            if inner['k'] == 'strenum' and inner['allow']:
                enum_k = self.enum_no
                self.enum_no += 1
            mut = plan.mutation
            if mut and mut[0] == 'wrong' and mut[1] == k:
                self.w(f'put_wrong(s, &mut doc, Wrong::{mut[2]}, {self.widths()});')
            elif mut and mut[0] == 'freeenum' and enum_k is not None and mut[1] == enum_k:
                self.w(f'put_free_string(s, &mut doc, {self.widths()});')
            elif n['k'] == 'nullable':
                # the value is always emitted (so that the string arena and the
                # sequence of draws do not depend on the choice) and then replaced
                # by null when the symbolic choice says so
                self.w('{ let null = s.bool();')
                self.put_leaf(inner)
                self.w(f'  if null {{ doc.toks[{pos}] = Tok::NULL; }} }}')
            else:
                self.put_leaf(inner)
            if live:
                v = self.leaf_verdict(inner, pos)
                if n['k'] == 'nullable':
                    v = f'(if is_null(&doc, {pos}) {{ OK }} else {{ {v} }})'
                elif optional_member:
                    # an explicit null for a non-required member is schema-invalid, but typify represents
                    # such members as Option<T>, for which serde reads null as None: nothing is claimed
                    v = f'(if is_null(&doc, {pos}) {{ SOFT }} else {{ {v} }})'
                self.verdict.append(v)
            self.leaves.append((pos, n, live))
            return
        k = n['k']
        if k == 'nullable':
            if plan.compound_null:
                self.w('put_null(s, &mut doc);')
                self.pos += 1
            else:
                self.value(n['inner'], live, path)
        elif k == 'tuple':
            tk = self.tuple_no
            self.tuple_no += 1
            mut = plan.mutation
            delta = mut[2] if (mut and mut[0] == 'arity' and mut[1] == tk) else 0
            items = n['items'][:-1] if delta < 0 else n['items']
            si, sp = self.span_begin()
            self.w(f'doc.push(Tok::seq({len(items) + (1 if delta > 0 else 0)}, {sp}));')
            self.pos += 1
            start = self.pos
            for i, it in enumerate(items):
                self.value(it, live, f'{path}[{i}]')
            if delta > 0:
                self.w('put_null(s, &mut doc);')
                self.pos += 1
            self.span_end(si, start)
            if delta != 0 and live:
                self.const_bad.append(f'tuple #{tk} arity {delta:+d}')
        elif k == 'array':
            si, sp = self.span_begin()
            self.w(f'doc.push(Tok::seq({plan.array_len}, {sp}));')
            self.pos += 1
            start = self.pos
            for i in range(plan.array_len):
                save = (self.leaf_no, self.obj_no, self.tuple_no, self.enum_no, self.member_no)
                self.value(n['item'], live, f'{path}[{i}]')
                if i + 1 < plan.array_len:
                    # numbering of leaves/objects refers to the schema, not the instance
                    self.leaf_no, self.obj_no, self.tuple_no, self.enum_no, self.member_no = save
            self.span_end(si, start)
        elif k == 'obj':
            ok_ = self.obj_no
            self.obj_no += 1
            mut = plan.mutation
            extra = bool(mut and mut[0] == 'extra' and mut[1] == ok_)
            si, sp = self.span_begin()
            obj_pos = self.pos
            self.w(f'doc.push(Tok::map({len(n["props"]) + (1 if extra else 0)}, {sp}));')
            self.pos += 1
            start = self.pos
            for p in n['props']:
                mk = self.member_no
                self.member_no += 1
                present = plan.present is None or mk in plan.present
                ki, ksp = self.span_begin()
                self.w(f'put_key(&mut doc, {rstr(p["name"])}, {str(present).lower()}, {ksp});')
                self.pos += 1
                vpos = self.pos
                self.members.append({'obj': obj_pos, 'path': path, 'name': p['name'], 'pos': vpos, 'present': present, 'live': live and present,
                                     'prop': p, 'obj_live': live})
                self.value(p['sch'], live and present, f'{path}.{p["name"]}', optional_member=not p['required'])
                self.span_end(ki, vpos)
                if live and not present and p['required']:
                    if p['sch']['k'] in ('nullable', 'null'):
                        # schema-invalid, but C05 only speaks of required *non-nullable* members: a required
                        # nullable member is an Option<T> field, which serde fills with None when missing
                        self.const_soft.append(f'required nullable member {path}.{p["name"]} absent')
                    else:
                        self.const_bad.append(f'required member {path}.{p["name"]} absent')
            if extra:
                self.w(f'put_extra_key(s, &mut doc, {rstrs([p["name"] for p in n["props"]])});')
                self.pos += 2
                if live and n['closed']:
                    self.const_bad.append(f'undeclared member in closed object #{ok_}')
            self.span_end(si, start)
        elif k == 'extenum':
            v = plan.variant
            mut = plan.mutation
            if v < len(n['units']):
                name = n['units'][v]
                self.w(f'doc.push_str({rstr(name)});')
                self.pos += 1
                if mut and mut[0] == 'badtag':
                    raise Unsupported('badtag on a unit variant')
            else:
                name, content = n['variants'][v - len(n['units'])]
                si, sp = self.span_begin()
                self.w(f'doc.push(Tok::map(1, {sp}));')
                self.pos += 1
                start = self.pos
                ki, ksp = self.span_begin()
                if mut and mut[0] == 'badtag':
                    # an undeclared tag: 1..2 symbolic letters different from every variant name
                    names = n['units'] + [x[0] for x in n['variants']]
                    self.w(f'put_bad_tag(s, &mut doc, {rstrs(names)}, {ksp}, {mut[1]});')
                    if live:
                        self.const_bad.append('undeclared variant tag')
                else:
                    self.w(f'put_key(&mut doc, {rstr(name)}, true, {ksp});')
                    self.tags.append((self.pos, name))
                self.pos += 1
                vstart = self.pos
                self.value(content, live, f'{path}<{name}>')
                self.span_end(ki, vstart)
                self.span_end(si, start)
        else:
            raise Unsupported(k)

    def put_leaf(self, n):
        k = n['k']
        if k == 'null':
            self.w('put_null(s, &mut doc);')
        elif k == 'bool':
            self.w('put_bool(s, &mut doc);')
        elif k in ('int', 'intenum'):
            self.w('put_int(s, &mut doc);')
        elif k == 'str' or (k == 'strenum' and not n['allow']):
            self.w(f'put_free_string(s, &mut doc, {self.widths()});')
        elif k == 'strenum':
            v = n['values'][(self.plan.pick + self.enum_no) % len(n['values'])]
            self.w(f'doc.push_str({rstr(v)});')
        else:
            raise Unsupported(k)

    def leaf_verdict(self, n, pos):
        k = n['k']
        if k == 'null':
            return f'v_null(&doc, {pos})'
        if k == 'bool':
            return f'v_bool(&doc, {pos})'
        if k == 'int':
            return f'v_int(&doc, {pos}, {n["lo"]}, {n["hi"]})'
        if k == 'intenum':
            return f'v_int_enum(&doc, {pos}, &[{", ".join(map(str, n["values"]))}], {str(n["allow"]).lower()})'
        if k == 'str':
            o = lambda v: f'Some({v})' if v is not None else 'None'
            return f'v_str(&doc, {pos}, {o(n["min"])}, {o(n["max"])})'
        if k == 'strenum':
            return f'v_str_enum(&doc, {pos}, {rstrs(n["values"])}, {str(n["allow"]).lower()})'
        raise Unsupported(k)

    def verdict_expr(self):
        e = 'OK'
        for v in self.verdict:
            e += f'.and({v})'
        if self.const_bad:
            e += '.and(BAD)'
        if self.const_soft:
            e += '.and(SOFT)'
        return e


def dv_check(doc, pos, v):
    if v is None:
        return f'is_null(&{doc}, {pos})'
    if isinstance(v, bool):
        return f'is_bool(&{doc}, {pos}, {str(v).lower()})'
    if isinstance(v, int):
        return f'is_int(&{doc}, {pos}, {v})'
    if isinstance(v, str):
        return f'is_str(&{doc}, {pos}, {rstr(v)})'
    raise Unsupported('default')


def build_prelude(root, plan):
    dry = Emitter(plan)
    dry.value(root)
    em = Emitter(plan, pre=dry.spans)
    em.value(root)
    if em.pos > 24:
        raise Unsupported(f'document of {em.pos} tokens exceeds NTOK')
    return em


def fn_instance(name, T, root, plan):
    """C02 + C05: valid => accepted; represented-constraint violation => rejected."""
    em = build_prelude(root, plan)
    L = [f'pub fn {name}<S: Src>(s: &mut S) {{', '    let mut doc = Doc::new();'] + em.lines
    L += [
        '    assert!(!doc.overflow, "harness: document arena too small");',
        f'    let v = {em.verdict_expr()};',
        f'    let r: Result<{T}, E> = from_doc(&doc);',
        '    #[cfg(not(kani))]',
        '    {',
        '        let text = crate::render::to_json(&doc);',
        '        s.note("instance", &text);',
        '        s.note("oracle", &v);',
        '        s.note("deserialize.is_ok", &r.is_ok());',
        f'        s.note("serde_json::from_str.is_ok", &serde_json::from_str::<{T}>(&text).is_ok());',
        '    }',
        '    if v.valid {',
        '        assert!(r.is_ok(), "C02: schema-valid instance rejected by the generated type");',
        '    }',
        '    if v.enforced_violation {',
        '        assert!(r.is_err(), "C05: instance violating a represented constraint accepted by the generated type");',
        '    }',
        '    crate::cover!(s, v.valid, "valid instance");',
        '    crate::cover!(s, v.enforced_violation, "instance violating a represented constraint");',
        '    std::mem::forget(r);',
        '}',
    ]
    return '\n'.join(L), em


def w_lookup(em, m, var):
    """Rust expression locating member `m` in the output document `var`, by name
    from the enclosing object (robust against member reordering). Returns
    (setup_lines, pos_expr, present_expr)."""
    # enclosing object's position in the output: the same as in the input
    # (template-padded layout); members are then found by name.
    return f'member(&{var}, {m["obj"]}, {rstr(m["name"])})'


def fn_roundtrip(name, T, root, plan):
    """C03 + C06."""
    em = build_prelude(root, plan)
    L = [f'pub fn {name}<S: Src>(s: &mut S) {{', '    let mut doc = Doc::new();'] + em.lines
    L += [
        '    assert!(!doc.overflow, "harness: document arena too small");',
        f'    let v = {em.verdict_expr()};',
        '    s.assume(v.valid);',
        '    #[cfg(not(kani))]',
        '    s.note("instance", &crate::render::to_json(&doc));',
        f'    let x: {T} = match from_doc(&doc) {{ Ok(x) => x, Err(_) => return }};',
        '    let mut w = Doc::new();',
        '    let r = to_doc(&x, &mut w, Some(&doc));',
        '    #[cfg(not(kani))]',
        '    s.note("serialized", &crate::render::to_json(&w));',
        '    assert!(r.is_ok() && !w.overflow, "C03: serializing the deserialized value failed");',
        '    assert!(!w.len_mismatch, "C03: round trip altered a declared string value (length)");',
    ]
    # (a)/(b): containment + defaults, member by member; leaves by position
    checks = []
    for m in em.members:
        if not m['obj_live']:
            continue
        p = m['prop']
        look = w_lookup(em, m, 'w')
        if m['present']:
            omit_ok = 'false' if p['required'] else f'is_empty_value(&doc, {m["pos"]})'
            checks.append(f'    match {look} {{\n'
                          f'        Some((q, true)) => assert!(q == {m["pos"]}, "harness: output layout differs from the input layout"),\n'
                          f'        _ => assert!({omit_ok}, "C03: round trip lost declared member {m["path"]}.{m["name"]}"),\n'
                          f'    }}')
        else:
            if p['has_default']:
                checks.append(f'    match {look} {{\n'
                              f'        Some((q, true)) => assert!({dv_check("w", "q", p["default"])}, "C06: member {m["path"]}.{m["name"]} absent from the instance is not filled with the schema default"),\n'
                              f'        _ => assert!(false, "C06: defaulted member {m["path"]}.{m["name"]} is not written back"),\n'
                              f'    }}')
            else:
                # no schema default: the member may only appear with an intrinsic
                # default that is itself valid there (null where null is admitted,
                # an empty array where an array is expected)
                sch = p['sch']
                if sch['k'] == 'nullable' or sch['k'] == 'null':
                    allowed = 'is_null(&w, q)'
                elif sch['k'] == 'array':
                    allowed = 'is_empty_seq(&w, q)'
                else:
                    allowed = 'false'
                checks.append(f'    if let Some((q, true)) = {look} {{\n'
                              f'        assert!({allowed}, "C03: round trip added member {m["path"]}.{m["name"]} which has no default (or wrote a value that is not valid there)");\n'
                              f'    }}')
    L += checks
    for kpos, name in em.tags:
        L.append(f'    assert!(w.toks[{kpos}].is_key() && w.key_is(w.toks[{kpos}], {rstr(name)}), "C03: round trip changed the variant tag");')
    # leaves: equal values at the same positions (present leaves only)
    for pos, n, live in em.leaves:
        if live:
            L.append(f'    if !is_pad(&w, {pos}) {{ assert!(same_leaf(&doc, {pos}, &w, {pos}), "C03: round trip altered a declared value"); }}')
    # idempotence: w is (checked above to be) the JSON value v2 = v plus the schema
    # defaults of absent members; deserializing v2 - whose layout and presence
    # flags are concrete, unlike w's - and serializing again must reproduce w.
    # (That the *omitted* optional members of w may indeed be omitted is the
    # business of the instance harnesses with those members absent.)
    L += ['    let mut v2 = doc.clone();']
    for m in em.members:
        if m['obj_live'] and not m['present'] and m['prop']['has_default']:
            d = m['prop']['default']
            kpos = m['pos'] - 1
            L.append(f'    v2.toks[{kpos}].present = true;')
            if d is None:
                L.append(f'    v2.toks[{m["pos"]}] = Tok::NULL;')
            elif isinstance(d, bool):
                L.append(f'    v2.toks[{m["pos"]}] = Tok::bool({str(d).lower()});')
            elif isinstance(d, int):
                L.append(f'    v2.toks[{m["pos"]}] = Tok::i64({d});' if d < 0 else f'    v2.toks[{m["pos"]}] = Tok::u64({d});')
            elif isinstance(d, str):
                L.append(f'    {{ let (o, l) = v2.intern({rstr(d)}.as_bytes()); v2.toks[{m["pos"]}] = Tok::str(o, l); }}')
            else:
                raise Unsupported('default kind')
    L += [
        '    let y: Result<' + T + ', E> = from_doc(&v2);',
        '    assert!(y.is_ok(), "C03/C06: the instance with the schema defaults filled in does not deserialize");',
        '    if let Ok(y) = &y {',
        '        let mut w2 = Doc::new();',
        '        let r2 = to_doc(y, &mut w2, Some(&v2));',
        '        assert!(r2.is_ok() && same_doc(&w, &w2), "C03: round trip is not idempotent");',
        '    }',
        '    crate::cover!(s, true, "round trip completed");',
        '    std::mem::forget(x);',
        '    std::mem::forget(y);',
        '}',
    ]
    return '\n'.join(L), em


def fn_same_behaviour(name, TA, TB, root, plan):
    """C14: the type generated under two settings accepts the same instances
    and writes the same JSON."""
    em = build_prelude(root, plan)
    L = [f'pub fn {name}<S: Src>(s: &mut S) {{', '    let mut doc = Doc::new();'] + em.lines
    L += [
        '    assert!(!doc.overflow, "harness: document arena too small");',
        '    #[cfg(not(kani))]',
        '    s.note("instance", &crate::render::to_json(&doc));',
        f'    let a: Result<{TA}, E> = from_doc(&doc);',
        f'    let b: Result<{TB}, E> = from_doc(&doc);',
        '    #[cfg(not(kani))]',
        '    { s.note("default settings: deserialize.is_ok", &a.is_ok()); s.note("other settings: deserialize.is_ok", &b.is_ok()); }',
        '    assert!(a.is_ok() == b.is_ok(), "C14: a setting changed which instances a type accepts");',
        '    if let (Ok(x), Ok(y)) = (&a, &b) {',
        '        let mut wa = Doc::new();',
        '        let mut wb = Doc::new();',
        '        let ra = to_doc(x, &mut wa, Some(&doc));',
        '        let rb = to_doc(y, &mut wb, Some(&doc));',
        '        assert!(ra.is_ok() && rb.is_ok() && same_doc(&wa, &wb), "C14: a setting changed what a type writes on the wire");',
        '        crate::cover!(s, true, "both accepted");',
        '    }',
        '    std::mem::forget((a, b));',
        '}',
    ]
    return '\n'.join(L), em


PRIM_INTS = {'u8', 'u16', 'u32', 'u64', 'i8', 'i16', 'i32', 'i64'}


def fn_builder(name, mod, T, fields, root, plan):
    """C18 (+C06): setters called for the members the plan marks present, with
    symbolic values; setter names and field types read from the generated code."""
    em = build_prelude(root, plan)
    top = [m for m in em.members if m['path'] == '' and m['obj'] == 0]
    by_json = {f['json']: f for f in fields}
    if any(m['name'] not in by_json for m in top):
        return None, em
    L = [f'pub fn {name}<S: Src>(s: &mut S) {{', f'    use {mod}::*;', '    let mut doc = Doc::new();'] + em.lines
    L += ['    assert!(!doc.overflow, "harness: document arena too small");',
          f'    let v = {em.verdict_expr()};',
          '    #[cfg(not(kani))]',
          '    s.note("members set through the builder", &crate::render::to_json(&doc));',
          f'    let mut b = {T}::builder();',
          '    let mut conv_ok = true;']
    required_set = True
    for m in top:
        f = by_json[m['name']]
        ty = f['ty'].replace(' ', '')
        if not m['present']:
            if m['prop']['required']:
                required_set = False
            continue
        if ty in PRIM_INTS:
            L += [f'    {{ let t = doc.toks[{m["pos"]}];',
                  f'      if t.kind == K::I64 {{ let n = t.num as i64; conv_ok = conv_ok && <{ty} as TryFrom<i64>>::try_from(n).is_ok(); b = b.{f["field"]}(n); }}',
                  f'      else if t.kind == K::U64 {{ let n = t.num; conv_ok = conv_ok && <{ty} as TryFrom<u64>>::try_from(n).is_ok(); b = b.{f["field"]}(n); }}',
                  '      else { s.assume(false); } }']
        else:
            L += [f'    {{ let fv: Result<{f["ty"]}, E> = crate::tok::from_doc_at(&doc, {m["pos"]});',
                  f'      match fv {{ Ok(x) => {{ b = b.{f["field"]}(x); }} Err(_) => {{ s.assume(false); }} }} }}']
    rs = str(required_set).lower()
    L += [f'    let built: Result<{T}, _> = b.try_into();',
          f'    let de: Result<{T}, E> = from_doc(&doc);',
          '    #[cfg(not(kani))]',
          f'    {{ s.note("try_into.is_ok", &built.is_ok()); s.note("required members set", &{rs}); s.note("conversions ok", &conv_ok); s.note("deserialize.is_ok", &de.is_ok()); }}',
          '    if conv_ok {',
          f'        assert!(built.is_ok() == {rs}, "C18: builder conversion succeeds although a required property is unset, or fails although all are set");',
          '    } else {',
          '        assert!(built.is_err(), "C18: builder conversion succeeds although a supplied value does not convert into the property type");',
          '    }',
          '    if let (Ok(x), Ok(y)) = (&built, &de) {',
          '        let mut wx = Doc::new();',
          '        let mut wy = Doc::new();',
          '        let rx = to_doc(x, &mut wx, Some(&doc));',
          '        let ry = to_doc(y, &mut wy, Some(&doc));',
          '        assert!(rx.is_ok() && ry.is_ok() && same_doc(&wx, &wy), "C18/C06: built value differs from deserializing an object with the same members (defaults included)");',
          f'        let again: Result<{T}, _> = builder::{T}::from(x.clone()).try_into();',
          '        assert!(again.is_ok(), "C18: struct -> builder -> struct fails");',
          '        if let Ok(z) = &again {',
          '            let mut wz = Doc::new();',
          '            let rz = to_doc(z, &mut wz, Some(&doc));',
          '            assert!(rz.is_ok() && same_doc(&wx, &wz), "C18: struct -> builder -> struct is not the identity");',
          '        }',
          '        crate::cover!(s, true, "built and deserialized");',
          '        std::mem::forget(again);',
          '    }',
          '    let _ = v;',
          '    std::mem::forget((built, de));',
          '}']
    return '\n'.join(L), em


def fn_wirecompat(name, TO, TG, root, plan):
    """C04: x: T (the origin type, obtained by T's own Deserialize from a
    schema-shaped symbolic document) -> wo = ser(x) -> T' (generated from T's
    schemars schema) must accept wo, and must write the same document back
    (modulo absent == null for members), which T then reads as x again."""
    em = build_prelude(root, plan)
    L = [f'pub fn {name}<S: Src>(s: &mut S) {{', '    let mut doc = Doc::new();'] + em.lines
    L += [
        '    assert!(!doc.overflow, "harness: document arena too small");',
        '    #[cfg(not(kani))]',
        '    s.note("document", &crate::render::to_json(&doc));',
        f'    let x: {TO} = match from_doc(&doc) {{ Ok(x) => x, Err(_) => return }};',
        '    let mut wo = Doc::new();',
        '    let ro = to_doc(&x, &mut wo, Some(&doc));',
        '    assert!(ro.is_ok() && !wo.overflow && !wo.len_mismatch, "harness: the origin type does not serialize into the document model");',
        '    #[cfg(not(kani))]',
        '    s.note("serialization of the origin value", &crate::render::to_json(&wo));',
        f'    let y: Result<{TG}, E> = from_doc(&wo);',
        '    #[cfg(not(kani))]',
        '    { let text = crate::render::to_json(&wo); s.note("generated type: deserialize.is_ok", &y.is_ok());',
        f'      s.note("generated type: serde_json::from_str.is_ok", &serde_json::from_str::<{TG}>(&text).is_ok()); }}',
        '    assert!(y.is_ok(), "C04: the generated type rejects the serialization of a value of the original type");',
        '    if let Ok(y) = &y {',
        '        let mut wg = Doc::new();',
        '        let rg = to_doc(y, &mut wg, Some(&wo));',
        '        #[cfg(not(kani))]',
        '        s.note("serialization by the generated type", &crate::render::to_json(&wg));',
        '        assert!(rg.is_ok() && !wg.overflow && !wg.len_mismatch && same_doc_relaxed(&wo, &wg), "C04: the generated type writes a document the original type does not read back as the same value");',
        '        crate::cover!(s, true, "exchanged");',
        '    }',
        '    std::mem::forget(x);',
        '    std::mem::forget(y);',
        '}',
    ]
    return '\n'.join(L), em
