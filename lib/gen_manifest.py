#!/usr/bin/env python3
"""Writes /verif/MANIFEST.json from lib/plan.py (single source of truth)."""
import json
import os
import subprocess
import sys

sys.path.insert(0, os.path.dirname(os.path.abspath(__file__)))
import plan  # noqa: E402

NA = {
    'C01': "compilability is a verdict of rustc's parser/type checker on rendered tokens, and rendering (quote/syn/heck) does not return under CBMC even on concrete input (measured >25 min); no clause is left that a solver decides",
    'C04': 'not built: it needs a second generated program (origin types with serde+schemars derives) exchanging documents with the generated types, and the heart of the property - data-carrying enums under the four tagging modes - deserializes through serde\'s private Content buffering, which the E2 token model does not reach; the flat remainder coincides with what C02/C03 already check on hand-written schemas of the same shapes',
    'C07': 'graph algorithm over heap maps (BTreeMap<TypeId,TypeEntry>, type_to_id keyed by a 19-variant enum) indexed by symbolic ids: even a 1-node instance exceeds the cap (measured >15 min), and a concrete graph leaves nothing for a solver to quantify over',
    'C08': 'every clause runs through util::sanitize = heck casing + unicode-ident tables + syn::parse_str, which CBMC does not finish even on concrete 4-byte inputs (measured >25 min)',
    'C12': 'quantifies over process runs, hash seeds and JSON key order of whole-program token rendering; there is no input domain to encode and the output path is quote!',
    'C13': 'the policy decision is not separable from serde_json::from_value / str::find / BTreeMap<String,_> / format! in convert_rust_extension; with all of them stubbed the query still does not return in 25 min (7 attempts, measured); the reachable remainder (semver::VersionReq::matches) is a third-party crate',
    'C15': 'typify-macro is a proc-macro crate and cargo-typify does not compile under the only available engine (Kani toolchain: backtrace E0659); the relation is over token streams',
    'C16': 'a single inductive step (assign_type on the BTreeMap indexes with symbolic ids) exceeds the cap (measured >15 min); a history property whose step is out of reach has nothing left',
    'C17': "the oracle is rustc's trait resolution and a parse of the rendered tokens; neither side is encodable",
    'C19': "trait-bound satisfaction and visibility are verdicts of rustc's trait resolution on rendered tokens, not encodable",
}


def main():
    hook_commits = subprocess.run(['git', '-C', '/repo', 'log', '--format=%H %s'], capture_output=True, text=True).stdout.splitlines()
    hooks = [l.split()[0] for l in hook_commits if ' verif hooks' in l]
    checks = []
    for pid in sorted(plan.PLAN):
        P = plan.PLAN[pid]
        checks.append({
            'property_id': pid,
            'quick_cmd': f'./bin/check {pid} --tier quick',
            'thorough_cmd': f'./bin/check {pid} --tier thorough',
            'evidence_file': f'/verif/evidence/{pid}.json',
            'replay_cmd_template': f'./bin/check {pid} --replay {{path}}',
            'engine': P.get('engine_name', 'kani'),
            'level_claimed': {
                'category': 'other',
                'text': P['level_text'],
                'design_ref': P.get('design_ref', f'DESIGN.md §6 {pid}'),
            },
            'level_note': P['level_note'],
            'technique': P['technique'],
        })
    na = [{'property_id': k, 'reason': v} for k, v in sorted(NA.items()) if k not in plan.PLAN]
    for pid, reason in sorted(getattr(plan, 'NOT_YET', {}).items()):
        if pid not in plan.PLAN:
            na.append({'property_id': pid, 'reason': reason})
    m = {
        'version': 1,
        'setup_cmd': './bin/setup',
        'hooks': {
            'guard': 'verif-hooks (cargo feature of typify-impl, off by default)',
            'enable': 'harness crates depend on typify-impl = { path = "/repo/typify-impl", features = ["verif-hooks"] }',
            'baseline_off_cmd': 'cd /repo && cargo test --workspace --no-fail-fast --offline',
            'source_commits': hooks,
            'add_only': True,
        },
        'engines': [
            {'name': 'e1', 'path': 'kani/e1', 'serves_properties': sorted(p for p in plan.PLAN if 'e1' in plan.PLAN[p].get('engines', [])),
             'kind_free_text': "Kani/CBMC proof harnesses over typify-impl's own leaf kernels (via the verif-hooks forwarders); same bodies replay natively"},
            {'name': 'e2', 'path': 'kani/e2', 'serves_properties': sorted(p for p in plan.PLAN if 'e2' in plan.PLAN[p].get('engines', [])),
             'kind_free_text': 'Kani/CBMC proof harnesses over the Rust code typify generates (regenerated natively from /repo on every run) for a stated schema corpus'},
        ],
        'checks': checks,
        'not_applicable': sorted(na, key=lambda x: x['property_id']),
        'notes': 'Technique family: solver-based bounded checking of the real code (Kani 0.68 / CBMC 6.11 / CaDiCaL). exit 0 held, 1 VIOLATION (replayed natively), 2 inconclusive. See DESIGN.md.',
    }
    json.dump(m, open(os.path.join(plan.VERIF, 'MANIFEST.json'), 'w'), indent=1)
    print('MANIFEST.json:', len(checks), 'checks,', len(na), 'not applicable')


if __name__ == '__main__':
    main()
